"""Shared driver for C10/C11: real bellows.uart.Gateway + real EZSP facade on a stub ASH layer,
virtual time; and a full-stack variant (real AshProtocol on a fake serial transport)."""
import asyncio

import vloop

SOFTWARE = 11


class StubAsh:
    """what Gateway sees as its 'transport': the AshProtocol interface it uses"""

    def __init__(self, log):
        self.log = log
        self.closed = False

    def send_reset(self):
        import bellows.ash as ash
        if self.closed:
            raise ash.NcpFailure("Transport is closed, cannot send frame")
        self.log.append(("rst",))

    def close(self):
        if not self.closed:
            self.closed = True
            self.log.append(("tclose",))

    async def send_data(self, data):
        self.log.append(("data", bytes(data).hex()))


class GwDriver:
    def __init__(self):
        import bellows.ezsp
        import bellows.uart
        import zigpy.config
        self.loop = vloop.VLoop()
        asyncio.set_event_loop(self.loop)
        self.log = []
        self.steps = []
        self.mark = 0
        self.ez = bellows.ezsp.EZSP({zigpy.config.CONF_DEVICE_PATH: "/dev/null"})
        self.gw = bellows.uart.Gateway(self.ez)
        self.ash = StubAsh(self.log)
        self.gw.connection_made(self.ash)
        self.ez._gw = self.gw
        self.ez._protocol = bellows.ezsp.v4.EZSPv4(self.ez.handle_callback, self.gw)
        orig = self.ez.enter_failed_state

        def efs(err):
            self.log.append(("appfailed",))
            return orig(err)
        self.ez.enter_failed_state = efs

        async def command(name, *a, **k):
            self.log.append(("cmd_proceeds",))
            return []
        self.ez._protocol.command = command
        self.tasks = []

    def close(self):
        for t in self.tasks:
            t.cancel()
        try:
            self.loop.settle()
        except Exception:
            pass
        self.loop.close()

    def end(self):
        self.steps.append(self.log[self.mark:])
        self.mark = len(self.log)

    async def _reset(self):
        import bellows.ash as ash
        try:
            await self.gw.reset()
            self.log.append(("resetdone", 0))
        except asyncio.TimeoutError:
            self.log.append(("resetdone", 2))
        except ash.NcpFailure:
            self.log.append(("resetdone", 3))
        except asyncio.CancelledError:
            raise
        except BaseException:  # noqa
            self.log.append(("resetdone", 1))

    async def _startup(self):
        try:
            await self.gw.wait_for_startup_reset()
            self.log.append(("startupdone", 1))
        except asyncio.CancelledError:
            raise
        except BaseException:  # noqa
            self.log.append(("startupdone", 0))

    async def _cmd(self):
        from bellows.exception import EzspError
        try:
            await self.ez._command("nop")
        except EzspError:
            self.log.append(("cmd_raise",))

    def event(self, ev):
        import bellows.types as t
        k = ev[0]
        if k == "req":
            self.tasks.append(self.loop.create_task(self._reset()))
            self.loop.settle()
        elif k == "startup":
            self.tasks.append(self.loop.create_task(self._startup()))
            self.loop.settle()
        elif k == "batch":
            for u in ev[1]:
                try:
                    if u[0] == "reset":
                        self.gw.reset_received(t.NcpResetCode(u[1]))
                    elif u[0] == "lost":
                        self.gw.connection_lost(ConnectionError("scripted") if u[1] else None)
                    else:
                        self.gw.eof_received()
                except BaseException as e:  # noqa
                    self.log.append(("escaped", u[0], repr(e)))
            self.loop.settle()
        elif k == "timer":
            if self.loop.next_deadline() is not None:
                self.loop.tick()
        elif k == "command":
            self.tasks.append(self.loop.create_task(self._cmd()))
            self.loop.settle()
        elif k == "close":
            self.ez.close()
            self.loop.settle()
        elif k == "addcb":
            def cb(name, *args):
                if name == "_reset_controller_application":
                    self.log.append(("resetrequest",))
            self.ez.add_callback(cb)
        elif k == "start":
            self.ez.start_ezsp()
        self.end()

    def final(self):
        return [1 if self.gw._reset_future is not None else 0, 1 if self.gw._startup_reset_future is not None else 0,
                1 if self.ez.is_ezsp_running else 0, 1 if self.ez._gw is not None else 0]


def run_events(events):
    d = GwDriver()
    try:
        for ev in events:
            d.event(ev)
        return {"steps": [[list(e) for e in st] for st in d.steps], "final": d.final()}
    except BaseException as e:  # noqa
        import traceback
        return {"crash": repr(e) + traceback.format_exc()[-500:], "steps": [[list(x) for x in st] for st in d.steps]}
    finally:
        d.close()


CODE = {"rst": [1], "appfailed": [4], "resetrequest": [5], "tclose": [6], "cmd_raise": [7], "cmd_proceeds": [8]}


def enc_steps(obs):
    z = []
    for st in obs["steps"]:
        st = ([e for e in st if e[0] not in ("resetdone", "startupdone")] + [e for e in st if e[0] == "startupdone"]
              + [e for e in st if e[0] == "resetdone"])
        for e in st:
            if e[0] == "resetdone":
                z += [2, e[1]]
            elif e[0] == "startupdone":
                z += [3, e[1]]
            elif e[0] in CODE:
                z += CODE[e[0]]
            else:
                z += [-50]
        z += [-1]
    return z + obs["final"]


def model_events(events):
    out = []
    for ev in events:
        k = ev[0]
        if k == "batch":
            ups = []
            for u in ev[1]:
                if u[0] == "reset":
                    ups.append(f"(0, {u[1]})")
                elif u[0] == "lost":
                    ups.append(f"(1, {1 if u[1] else 0})")
                else:
                    ups.append("(2, 0)")
            out.append("(2, [" + "; ".join(ups) + "])")
        else:
            n = {"req": 0, "startup": 1, "timer": 3, "command": 4, "close": 5, "addcb": 6, "start": 7}[k]
            out.append(f"({n}, [])")
    return "[" + "; ".join(out) + "]"


def gen_events(rng, codes, allow_second_req=False):
    """a random gateway-level history: requests, waits, batches of upward calls, timers"""
    evs = []
    if rng.random() < 0.8:
        evs.append(("addcb",))
    if rng.random() < 0.7:
        evs.append(("start",))
    pending_req = False
    pending_start = False
    for _ in range(rng.randrange(1, 9)):
        r = rng.random()
        if r < 0.2 and (not pending_req or rng.random() < 0.15):
            evs.append(("req",))
            pending_req = True
        elif r < 0.28 and not pending_start:
            evs.append(("startup",))
            pending_start = True
        elif r < 0.7:
            n = rng.choice([1, 1, 1, 2, 2, 3])
            ups = []
            for _ in range(n):
                x = rng.random()
                if x < 0.55:
                    ups.append(("reset", rng.choice(codes)))
                elif x < 0.75:
                    ups.append(("lost", True))
                elif x < 0.85:
                    ups.append(("lost", False))
                else:
                    ups.append(("eof",))
            evs.append(("batch", ups))
            if any(u[0] in ("lost", "eof") or u == ("reset", SOFTWARE) for u in ups):
                pending_req = pending_start = False
        elif r < 0.8:
            evs.append(("timer",))
            pending_req = False
        elif r < 0.9:
            evs.append(("command",))
        else:
            evs.append(("close",))
    return evs


def monitor_gateway(events, obs):
    """C10/C11 clauses on the implementation's own gateway-level trace"""
    if "crash" in obs:
        return f"raised {obs['crash']}"
    has_cb = False
    req_pending = False
    start_pending = False
    running = False
    has_gw = True
    closed_deliberately = False
    failed = False
    transport_closed = False
    for ev, st in zip(events, obs["steps"]):
        kinds = [e[0] for e in st]
        if "tclose" in kinds:
            transport_closed = True
        for e in st:
            if e[0] == "escaped":
                return f"exception escaped Gateway.{'connection_lost' if e[1] != 'reset' else 'reset_received'}: {e[2]}"
        if ev[0] == "addcb":
            has_cb = True
        elif ev[0] == "start":
            running = True
        elif ev[0] == "req":
            if "rst" in kinds:
                req_pending = True
            elif not req_pending and not transport_closed and not any(e[0] == "resetdone" for e in st):
                return "a reset request wrote no RST frame although no other request was in progress and the port is open"
        elif ev[0] == "startup":
            start_pending = True
        elif ev[0] == "timer":
            if req_pending and ["resetdone", 2] not in st:
                return "reset request did not raise a timeout when the reset timeout expired"
            req_pending = False
        elif ev[0] == "close":
            running, has_gw = False, False
            closed_deliberately = True
        elif ev[0] == "command":
            if not running and "cmd_raise" not in kinds:
                return "a command was accepted although EZSP is stopped"
        elif ev[0] == "batch":
            ups = ev[1]
            sw_first = None
            failure = False
            for i, u in enumerate(ups):
                if u[0] == "reset" and u[1] == SOFTWARE and sw_first is None:
                    sw_first = i
                if (u[0] == "reset" and u[1] != SOFTWARE) or u[0] == "eof" or (u[0] == "lost" and u[1]):
                    failure = True
            loss = any(u[0] in ("lost", "eof") for u in ups)
            done_ok = ["resetdone", 0] in st
            if done_ok and not (req_pending and sw_first is not None):
                return "a reset request completed without an RSTACK carrying the software-reset code while it was pending"
            if req_pending and sw_first is not None and not done_ok and not any(
                    u[0] in ("lost", "eof") for u in ups[:sw_first]):
                return "RSTACK(software) arrived for a pending reset request but the request did not complete"
            if req_pending and loss and sw_first is None and not any(e[0] == "resetdone" and e[1] == 1 for e in st):
                return "connection lost while a reset request was pending, but the request was not released with the error"
            if start_pending and loss and not (sw_first is not None and not req_pending) and \
                    not any(e[0] == "startupdone" for e in st):
                return "connection lost while the start-up reset wait was pending, but the waiter was not released"
            if failure and has_cb and not failed and "resetrequest" not in kinds:
                return "NCP failure / connection loss with an application callback registered, but no controller-reset request"
            if failure and has_cb:
                failed = True
                running = False
            if any(e[0] == "resetdone" for e in st) or loss:
                req_pending = False
            if any(e[0] == "startupdone" for e in st):
                start_pending = False
            if not failure and "resetrequest" in kinds:
                return "a controller-reset request without an NCP failure (deliberate close / software reset only)"
        if failed and ev[0] == "command" and "cmd_raise" not in kinds:
            return "command accepted after the failure was reported"
    return None
