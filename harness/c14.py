"""C14: network settings round trip -- real write_network_info / load_network_info (and the per-version
accessors) against a simulated NCP (harness/ncpsim.py), compared with the Coq plan/read-back model."""
import asyncio

from framework import PropertyCheck

WELL_KNOWN = b"ZigBeeAlliance09"
FIXED_RANDOM = bytes(range(0x40, 0x50))


def rnd_bytes(rng, n):
    return bytes(rng.randrange(256) for _ in range(n))


class Check(PropertyCheck):
    pid = "C14"
    gen_files = ["GenSecurity", "GenNetInfoFn"]
    model_imports = ["gen.GenSecurity", "model.NetInfo"]
    run_expr = "run_netinfo_case"
    case_type = "(N * N * N * bytes * netinfo)"
    shard = 100
    rule = ("random network and node information (keys, frame counters, 0..N link keys with distinct partners incl. more than the key "
            "table holds, 0..3 children with known or unknown network address, known or unknown trust-centre address, hashed link key "
            "present or absent, well-known or other trust-centre link key) x protocol versions 4..14 x NCP capabilities (rewritable EUI64 "
            "token present or not, node address equal or different); non-trivial = at least one link key or child; distinct by input")
    assumptions = ["the NCP is harness/ncpsim.NcpSim (command level), an assumption about EmberZNet firmware",
                   "os.urandom is pinned for the generated default hashed key; EZSP.startup_reset is replaced by 'NCP reboots, EZSP restarts'"]

    def setup(self):
        import stack
        self.stack = stack

    def build_cases(self, tier, rng):
        cases = []
        per = 14 if tier == "quick" else 300
        for v in range(4, 15):
            for i in range(per):
                nkeys = rng.choice([0, 1, 2, 3, 5]) if i % 7 else 7
                cases.append({
                    "v": v, "key_size": rng.choice([4, 6, 12]) if nkeys < 7 else 5, "nv3": rng.random() < 0.6,
                    "prior": rng.random() < 0.6,      # the adapter held another network before (multi-step history)
                    "prior_left": rng.random() < 0.4,  # ... and has left it since (no formed network, its link keys still stored)
                    "same_ieee": rng.random() < 0.5, "node_unknown": rng.random() < 0.15,
                    "pan": rng.randrange(0xFFFF), "epan": rnd_bytes(rng, 8).hex(), "channel": rng.randrange(11, 27),
                    "mask": rng.choice([0x07FFF800, 1 << 15, (1 << 11) | (1 << 26)]), "update_id": rng.randrange(256),
                    "nwk_key": rnd_bytes(rng, 16).hex(), "nwk_seq": rng.randrange(256), "nwk_fc": rng.choice([0, 1, rng.randrange(1 << 32), 0xFFFFFFFF]),
                    "tclk": (WELL_KNOWN if rng.random() < 0.8 else rnd_bytes(rng, 16)).hex(), "tclk_fc": rng.randrange(1 << 32),
                    "tc_known": rng.random() < 0.7, "tc_addr": rnd_bytes(rng, 8).hex(),
                    "hashed": rnd_bytes(rng, 16).hex() if rng.random() < 0.6 else None,
                    "keys": [[bytes([0xA0, i & 0xFF, k, 1 + (i >> 8), 2, 3, 4, 5]).hex(), rnd_bytes(rng, 16).hex()] for k in range(nkeys)],
                    "children": [[bytes([0xC0, i & 0xFF, k, 9 + (i >> 8), 9, 9, 9, 9]).hex(), (0x3000 + k) if rng.random() < 0.8 else None]
                                 for k in range(rng.choice([0, 0, 1, 2, 3]))],
                })
        return cases

    def _netinfo(self, c):
        import zigpy.state
        import zigpy.types as zt
        current = zt.EUI64.convert("00:0d:6f:00:0a:90:69:e7")
        tc = zt.EUI64.deserialize(bytes.fromhex(c["tc_addr"]))[0] if c["tc_known"] else zt.EUI64.UNKNOWN
        ss = {"ezsp": {"hashed_tclk": c["hashed"]}} if c["hashed"] else {}
        ni = zigpy.state.NetworkInfo(
            extended_pan_id=zt.ExtendedPanId.deserialize(bytes.fromhex(c["epan"]))[0], pan_id=zt.PanId(c["pan"]),
            nwk_update_id=zt.uint8_t(c["update_id"]), nwk_manager_id=zt.NWK(0), channel=zt.uint8_t(c["channel"]),
            channel_mask=zt.Channels(c["mask"]), security_level=zt.uint8_t(5),
            network_key=zigpy.state.Key(key=zt.KeyData(bytes.fromhex(c["nwk_key"])), seq=c["nwk_seq"], tx_counter=c["nwk_fc"]),
            tc_link_key=zigpy.state.Key(key=zt.KeyData(bytes.fromhex(c["tclk"])), partner_ieee=tc, tx_counter=c["tclk_fc"]),
            key_table=[zigpy.state.Key(key=zt.KeyData(bytes.fromhex(k)), partner_ieee=zt.EUI64.deserialize(bytes.fromhex(p))[0])
                       for p, k in c["keys"]],
            children=[zt.EUI64.deserialize(bytes.fromhex(e))[0] for e, _ in c["children"]],
            nwk_addresses={zt.EUI64.deserialize(bytes.fromhex(e))[0]: zt.NWK(a) for e, a in c["children"] if a is not None},
            stack_specific=ss)
        ieee = zt.EUI64.UNKNOWN if c["node_unknown"] else current if c["same_ieee"] else zt.EUI64.convert("00:0d:6f:ff:fe:12:34:56")
        node = zigpy.state.NodeInfo(nwk=zt.NWK(0), ieee=ieee, logical_type=zt.uint8_t(0))
        return ni, node

    def run_impl(self, case):
        import bellows.zigbee.application as A
        import ncpsim
        c = case
        out = {}

        async def go():
            app = self.stack.make_app(c["v"])
            ez = app._ezsp
            sim = ncpsim.NcpSim(ez, c["v"], nv3_eui64=c["nv3"], key_table_size=c["key_size"])
            ez._protocol.command = sim.command

            async def startup_reset():
                sim.reboot()
                ez.start_ezsp()
            ez.startup_reset = startup_reset
            if c.get("prior"):
                # an earlier network on the same adapter: non-zero counters, keys and children of its own
                pc = dict(c, pan=0x7A7A, nwk_fc=0x01020304, tclk_fc=0x0A0B0C0D, tclk=WELL_KNOWN.hex(), nwk_key=("5a" * 16),
                          keys=[[bytes([0xEE, k, 1, 1, 1, 1, 1, 1]).hex(), ("%02x" % k) * 16] for k in range(3)],
                          children=[[bytes([0xDD, k, 2, 2, 2, 2, 2, 2]).hex(), 0x4000 + k] for k in range(2)])
                pni, pnode = self._netinfo(pc)
                await app.write_network_info(network_info=pni, node_info=pnode)
                if c.get("prior_left"):
                    sim.c_leaveNetwork({})          # e.g. `bellows leave`: the network is gone, the key table is not wiped
                    await asyncio.sleep(0)
                del sim.log[:]
            ni, node = self._netinfo(c)
            import zigpy.types as zt0
            factory = bytes(sim.factory_eui64.serialize())
            supplied_tc = None if ni.tc_link_key.partner_ieee == zt0.EUI64.UNKNOWN else bytes(ni.tc_link_key.partner_ieee.serialize()).hex()
            supplied_ieee = None if node.ieee == zt0.EUI64.UNKNOWN else bytes(node.ieee.serialize())
            await app.write_network_info(network_info=ni, node_info=node)
            # what the property calls "the fields supplied", stated from the INPUT (the library updates the objects it was
            # given).  Restoring first clears the adapter's custom address (it then answers to its factory address); the
            # supplied node address is written when it is known, differs from that and the adapter has the rewritable
            # token.  If it is written, the supplied trust-centre address counts; otherwise key entries are bound to the
            # adapter's own address, which then also stands for the trust centre.
            rewritable = bool(c["nv3"]) and "getTokenData" in ez._protocol.COMMANDS      # token commands exist from EZSP v9
            must_write = supplied_ieee is not None and supplied_ieee != factory and rewritable
            out["eui64_expected"] = (supplied_ieee if must_write else factory).hex()
            out["eui64_final"] = bytes(sim.eui64.serialize()).hex()
            out["supplied_tc_effective"] = supplied_tc if must_write else factory.hex()
            sec = [a["state"] for n, *rest in [(x[0], x[1]) if len(x) > 1 else (x[0],) for x in sim.log]
                   for a in rest if n == "setInitialSecurityState"]
            s = sec[-1]
            out["sec"] = {"bitmask": int(s.bitmask), "pre": bytes(s.preconfiguredKey.serialize()).hex(),
                          "nwk": bytes(s.networkKey.serialize()).hex(), "seq": int(s.networkKeySequenceNumber),
                          "tc": bytes(s.preconfiguredTrustCenterEui64.serialize()).hex()}
            import zigpy.types as zt
            eff = ni.tc_link_key.partner_ieee
            out["effective_tc"] = None if eff == zt.EUI64.UNKNOWN else bytes(eff.serialize()).hex()
            out["ncp"] = {"keys": {str(i): [bytes(e.serialize()).hex(), bytes(k.serialize()).hex()] for i, (e, k) in sim.key_table.items()},
                          "children": {str(i): [bytes(e.serialize()).hex(), int(n)] for i, (e, n) in sim.children.items()},
                          "nwk_fc": sim.nwk_fc}
            import bellows.types as bt
            out["key_size_effective"] = sim.config[int(bt.EzspConfigId.CONFIG_KEY_TABLE_SIZE)]
            await app.load_network_info(load_devices=True)
            r = app.state.network_info
            hashed = r.stack_specific.get("ezsp", {}).get("hashed_tclk")
            out["read"] = {
                "node_ieee": bytes(app.state.node_info.ieee.serialize()).hex(),
                "pan": int(r.pan_id), "epan": bytes(r.extended_pan_id.serialize()).hex(), "channel": int(r.channel),
                "mask": int(r.channel_mask), "update_id": int(r.nwk_update_id),
                "nwk_key": bytes(r.network_key.key.serialize()).hex(), "nwk_seq": int(r.network_key.seq),
                "nwk_fc": int(r.network_key.tx_counter), "tclk": bytes(r.tc_link_key.key.serialize()).hex(), "hashed": hashed,
                "keys": [[bytes(k.partner_ieee.serialize()).hex(), bytes(k.key.serialize()).hex()] for k in r.key_table],
                "children": [[bytes(e.serialize()).hex(), int(r.nwk_addresses[e]) if e in r.nwk_addresses else None] for e in r.children],
            }

        orig = A.os.urandom
        A.os.urandom = lambda n: FIXED_RANDOM[:n]
        loop = asyncio.new_event_loop()
        asyncio.set_event_loop(loop)
        try:
            loop.run_until_complete(asyncio.wait_for(go(), 30))
        except BaseException as e:  # noqa
            import traceback
            out["crash"] = repr(e) + traceback.format_exc()[-500:]
        finally:
            A.os.urandom = orig
            loop.close()
        case["_effective_tc"] = out.get("supplied_tc_effective", out.get("effective_tc"))
        case["_key_size"] = out.get("key_size_effective", case["key_size"])
        return out

    def describe(self, case):
        return {k: v for k, v in case.items() if not k.startswith("_")}

    def model_input(self, case):
        c = case

        def bl(h):
            return "[" + ";".join(str(b) for b in bytes.fromhex(h)) + "]"
        tc = c.get("_effective_tc")
        keys = "[" + "; ".join(f"({bl(p)}, {bl(k)})" for p, k in c["keys"]) + "]"
        kids = "[" + "; ".join(f"({bl(e)}, {'None' if a is None else '(Some ' + str(a) + ')'})" for e, a in c["children"]) + "]"
        ni = ("{| pan_id := %d; ext_pan_id := %s; channel := %d; channel_mask := %d; update_id := %d; manager_id := 0; "
              "nwk_key := %s; nwk_key_seq := %d; nwk_key_fc := %d; tclk := %s; tclk_fc := %d; tc_address := %s; "
              "hashed_tclk := %s; link_keys := %s; children := %s |}") % (
            c["pan"], bl(c["epan"]), c["channel"], c["mask"], c["update_id"], bl(c["nwk_key"]), c["nwk_seq"], c["nwk_fc"],
            bl(c["tclk"]), c["tclk_fc"], "None" if tc is None else f"(Some {bl(tc)})",
            "None" if c["hashed"] is None else f"(Some {bl(c['hashed'])})", keys, kids)
        prior_fc = 0x01020304 if c.get("prior") and c["v"] > 4 else 0     # v4 cannot store the counter at all
        return f"({c['v']}, {c.get('_key_size', c['key_size'])}, {prior_fc}, {bl(FIXED_RANDOM.hex())}, {ni})"

    def obs_to_z(self, case, obs):
        if "crash" in obs:
            return [-99]

        def eb(h):
            b = bytes.fromhex(h)
            return [len(b)] + list(b)
        s, r = obs["sec"], obs["read"]
        z = [s["bitmask"]] + eb(s["pre"]) + eb(s["nwk"]) + [s["seq"]] + eb(s["tc"]) + [-1]
        z += [r["pan"]] + eb(r["epan"]) + [r["channel"], r["mask"], r["update_id"]] + eb(r["nwk_key"]) + [r["nwk_seq"], r["nwk_fc"]]
        z += eb(r["tclk"])
        z += [1] + eb(r["hashed"]) if r["hashed"] else [0]
        z += [len(r["keys"])]
        for p, k in r["keys"]:
            z += eb(p) + eb(k)
        z += [len(r["children"])]
        for e, a in r["children"]:
            z += eb(e) + [-1 if a is None else a]
        return z

    def monitor(self, case, obs):
        """the round trip and the security state, judged on the implementation's own output"""
        c = case
        if "crash" in obs:
            return f"v{c['v']}: write/read raised {obs['crash'][:300]}"
        r, s = obs["read"], obs["sec"]
        v = c["v"]
        for k_in, k_out, what in (("pan", "pan", "PAN ID"), ("epan", "epan", "extended PAN ID"), ("channel", "channel", "channel"),
                                  ("mask", "mask", "channel mask"), ("update_id", "update_id", "update ID"),
                                  ("nwk_key", "nwk_key", "network key"), ("nwk_seq", "nwk_seq", "network key sequence number")):
            if c[k_in] != r[k_out]:
                return f"v{v}: {what} written {c[k_in]!r} but read back {r[k_out]!r}"
        if v >= 5 and c["nwk_fc"] != r["nwk_fc"]:
            return f"v{v}: network-key frame counter written {c['nwk_fc']} but read back {r['nwk_fc']}"
        # security state sent to the NCP
        if s["nwk"] != c["nwk_key"] or s["seq"] != c["nwk_seq"]:
            return f"v{v}: security state carries another network key / sequence number"
        tc_flag = bool(s["bitmask"] & 0x40)
        if obs.get("eui64_final") != obs.get("eui64_expected"):
            return (f"v{v}: after the restore the adapter answers to {obs.get('eui64_final')}, the input determines "
                    f"{obs.get('eui64_expected')} (rewritable token: {c['nv3']}, prior network: {bool(c.get('prior'))})")
        if obs["read"].get("node_ieee") != obs.get("eui64_expected"):
            return f"v{v}: node address read back {obs['read'].get('node_ieee')}, the input determines {obs.get('eui64_expected')}"
        if obs["effective_tc"] != obs["supplied_tc_effective"]:
            return (f"v{v}: trust-centre address sent to the NCP / left in the network information is {obs['effective_tc']}, "
                    f"the input determines {obs['supplied_tc_effective']}")
        if tc_flag != (obs["effective_tc"] is not None):
            return f"v{v}: HAVE_TRUST_CENTER_EUI64 flag is {tc_flag} but the trust-centre address is {obs['effective_tc']}"
        if tc_flag and s["tc"] != obs["effective_tc"]:
            return f"v{v}: security state carries trust-centre address {s['tc']}, supplied {obs['effective_tc']}"
        hashed_flag = (s["bitmask"] & 0x84) == 0x84
        if hashed_flag != (v > 4):
            return f"v{v}: hashed-link-key flag is {hashed_flag}"
        want_pre = (c["hashed"] or FIXED_RANDOM.hex()) if v > 4 else c["tclk"]
        if s["pre"] != want_pre:
            return f"v{v}: preconfigured key sent {s['pre']}, expected {want_pre}"
        if v > 4 and r["hashed"] != want_pre:
            return f"v{v}: hashed link key kept in stack-specific data {r['hashed']}, written {want_pre}"
        if r["tclk"] != c["tclk"]:
            return f"v{v}: trust-centre link key written {c['tclk']} but read back {r['tclk']}"
        ksz = obs.get("key_size_effective", c["key_size"])       # write_config may have grown the table
        want_keys = c["keys"][:ksz]
        if r["keys"] != want_keys:
            return f"v{v}: link keys written {len(want_keys)} (table size {ksz}) but read back {len(r['keys'])}: {r['keys'][:2]}"
        if v >= 9:
            want_children = [[e, a] for e, a in c["children"] if a is not None]
            if r["children"] != want_children:
                return f"v{v}: children written {want_children} but read back {r['children']}"
        return None

    def nontrivial(self, case, obs):
        return bool(case["keys"] or case["children"])

    def signature(self, case, obs, why):
        if "trust-centre link key written" in why and case["v"] > 4 and case["tclk"] != WELL_KNOWN.hex():
            return "netinfo:tclk-not-well-known-not-preserved"
        import re
        return "netinfo:" + re.sub(r"v\d+", "vN", re.sub(r"[0-9a-f]{8,}", "H", why))[:60]
