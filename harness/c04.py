"""C04: host receiver -- real AshProtocol.frame_received / data_received vs the Coq receiver model."""
import itertools

import ashref
import ashrun
from c03 import fields_of, to_impl_frame
from framework import PropertyCheck


def alphabet(rng):
    a = []
    for frm in range(8):
        for re in (0, 1):
            a.append(("DATA", frm, re, rng.randrange(8), bytes([0x40 + frm, re])))
    a += [("ACK", 0, 0, 3), ("NAK", 0, 0, 5), ("RST",), ("RSTACK", 2, 0x0B), ("RSTACK", 2, 0x02), ("ERROR", 2, 0x51)]
    return a


class Check(PropertyCheck):
    pid = "C04"
    gen_files = ["GenAsh", "GenAshRxFn"]
    model_imports = ["gen.GenAsh", "model.AshCodec", "model.AshRx"]
    run_expr = "run_c04_case"
    case_type = "(N * list (list N * list N))"
    shard = 500
    rule = ("frame sequences over {DATA(frmNum 0..7, reTx 0/1, ackNum), ACK, NAK, RST, RSTACK(code), ERROR(code)} from every "
            "expected-number state 0..7 (reached by real traffic): exhaustive up to a length bound, plus long random sequences "
            "crossing the modulo-8 wrap; delivered through frame_received and, for a share of the cases, as wire bytes through "
            "data_received, also while a DATA frame of the host itself awaits its acknowledgement (pairs of frames in one read), data fields up to the 128-byte maximum as wire bytes; non-trivial = contains a DATA frame; distinct by (start state, entry point, sequence)")
    assumptions = ["transport open (a closing transport makes _write_frame raise; outside the property)"]

    def build_cases(self, tier, rng):
        A = alphabet(rng)
        cases = []
        ex = 2 if tier == "quick" else 3
        for s in range(8):
            for n in range(1, ex + 1):
                for seq in itertools.product(A, repeat=n):
                    cases.append((s, "frames", list(seq)))
        if tier == "quick":
            for _ in range(3000):
                cases.append((rng.randrange(8), "frames", [rng.choice(A) for _ in range(3)]))
        # a busy host: every pair (and, in thorough, triple) of frames in one read while a DATA frame of the host awaits its
        # acknowledgement -- the acknowledgement numbers the frames carry meet a pending, then an already settled future
        Ab = [("ACK", 0, 0, a) for a in (0, 1, 2)] + [("NAK", 0, 0, a) for a in (0, 1)] \
            + [("DATA", f, r, a, bytes([0x50 + f])) for f in range(8) for r in (0, 1) for a in (0, 1, 2)]
        for s0 in (range(8) if tier != "quick" else (0, 3, 7)):
            for pair in itertools.product(Ab, repeat=2):
                if tier == "quick" and rng.random() < 0.8:
                    continue
                cases.append((s0, "busy", list(pair)))
        for i in range(300 if tier == "quick" else 3000):
            n = rng.randrange(20, 120)
            seq = []
            exp = 0
            for _ in range(n):
                r = rng.random()
                if r < 0.55:      # mostly in sequence so that the run wraps many times
                    seq.append(("DATA", exp, rng.randrange(2), rng.randrange(8), bytes(rng.randrange(256) for _ in range(rng.randrange(0, 5)))))
                    exp = (exp + 1) % 8
                elif r < 0.6:
                    seq.append(("RSTACK", 2, rng.randrange(256)))
                    exp = 0
                else:
                    f = rng.choice(alphabet(rng))
                    if f[0] == "ERROR":
                        f = ("ERROR", 2, rng.randrange(256))
                    seq.append(f)
                    if f[0] == "DATA" and f[1] == exp:
                        exp = (exp + 1) % 8
                    if f[0] == "RSTACK":
                        exp = 0
            cases.append((0, "bytes" if i % 2 else "frames", seq))
        # data fields at and just below the maximum (128 bytes), arriving as wire bytes: after randomisation such a frame holds
        # a few reserved bytes, so its stuffed image is longer than control byte + 128 + CRC; in and out of sequence
        for i in range(60 if tier == "quick" else 600):
            s0 = rng.randrange(8)
            seq, exp = [], s0
            for _ in range(rng.randrange(2, 7)):
                n = rng.choice([128, 128, 127, 126, 125, 120, 100, 66, 65])
                frm = exp if rng.random() < 0.75 else rng.randrange(8)
                seq.append(("DATA", frm, rng.randrange(2), rng.randrange(8), bytes(rng.randrange(256) for _ in range(n))))
                if frm == exp:
                    exp = (exp + 1) % 8
            cases.append((s0, "bytes", seq))
        return cases

    def run_busy(self, s, seq):
        """the host has a DATA frame of its own in flight (its acknowledgement future is pending) while the peer's frames --
        which carry acknowledgement numbers -- arrive in ONE read, i.e. before the sending coroutine runs again"""
        import c05
        d = c05.Driver()
        try:
            for k in range(s):
                d.proto.frame_received(to_impl_frame(("DATA", k, 0, 0, b"")))
            d.submit(0, b"zz")
            del d.rec.log[:]
            d.mark = 0
            try:
                d.proto.data_received(b"".join(ashref.wire(fr) for fr in seq))
            except BaseException as e:  # noqa
                return {"crash": repr(e), "events": []}
            d.loop.settle()
            evs = [e for e in ashrun.rx_events(d.rec.log) if e[0] in ("ack", "nak", "cnak", "up", "reset")]
            return {"events": [list(e) for e in evs], "rx_seq": d.proto._rx_seq}
        finally:
            d.close()

    def run_impl(self, case):
        s, entry, seq = case
        if entry == "busy":
            return self.run_busy(s, seq)
        p, rec = ashrun.new_protocol()
        try:
            for k in range(s):     # reach the start state by real in-sequence traffic
                p.frame_received(to_impl_frame(("DATA", k, 0, 0, b"")))
            del rec.log[:]
            if entry == "frames":
                for fr in seq:
                    p.frame_received(to_impl_frame(fr))
            else:
                p.data_received(b"".join(ashref.wire(fr) for fr in seq))
        except BaseException as e:  # noqa
            return {"crash": repr(e), "events": []}
        return {"events": [list(e) for e in ashrun.rx_events(rec.log)], "rx_seq": p._rx_seq}

    def describe(self, case):
        s, entry, seq = case
        return {"start": s, "entry": entry, "frames": [[v.hex() if isinstance(v, bytes) else v for v in fr] for fr in seq[:40]],
                "n": len(seq)}

    def model_input(self, case):
        s, entry, seq = case
        items = []
        for fr in seq:
            f, pl = fields_of(fr)
            items.append("([" + ";".join(map(str, f)) + "],[" + ";".join(map(str, pl)) + "])")
        return f"({s}, [" + ";".join(items) + "])"

    def obs_to_z(self, case, obs):
        if "crash" in obs:
            return [-99]
        return ashrun.events_to_z([tuple(e) for e in obs["events"]])

    def monitor(self, case, obs):
        s, entry, seq = case
        if "crash" in obs:
            return f"receiver raised {obs['crash']}"
        ref = ashref.RefDecoder()
        ref.rx = s
        for fr in seq:
            ref.frame(fr)
        got = [tuple(e) for e in obs["events"]]
        if got != ref.events:
            for i, (g, w) in enumerate(itertools.zip_longest(got, ref.events)):
                if g != w:
                    return (f"event #{i}: implementation {g!r}, in-sequence receiver rule requires {w!r} "
                            f"(start expected number {s})")
        return None

    def nontrivial(self, case, obs):
        return any(fr[0] == "DATA" for fr in case[2])

    def signature(self, case, obs, why):
        return "rx:" + why.split(":")[1][:50] if ":" in why else why[:50]

    def shrink(self, case, still_fails):
        s, entry, seq = case
        seq = list(seq)
        changed = True
        while changed and len(seq) > 1:
            changed = False
            for i in range(len(seq)):
                cand = (s, entry, seq[:i] + seq[i + 1:])
                if still_fails(cand):
                    seq = cand[2]
                    changed = True
                    break
        return (s, entry, seq)
