"""C02: real AshProtocol.data_received over byte streams x chunkings vs the Coq transliteration,
with the independent per-byte reference decoder (ashref.RefDecoder) as the property oracle."""
import itertools

import ashref
import ashrun
from framework import PropertyCheck

ALPHA = [0x7E, 0x7D, 0x11, 0x13, 0x18, 0x1A, 0x5E, 0xC0, 0x00]
MAXBUF = 1024


def chunkings(n):
    """all 2^(n-1) ways to cut a stream of n bytes into consecutive non-empty reads"""
    if n == 0:
        return [[]]
    out = []
    for mask in range(1 << (n - 1)):
        cuts, start = [], 0
        for i in range(n - 1):
            if mask >> i & 1:
                cuts.append((start, i + 1))
                start = i + 1
        cuts.append((start, n))
        out.append(cuts)
    return out


def cut(stream, rng, mode):
    n = len(stream)
    if mode == "one" or n <= 1:
        return [stream]
    if mode == "bytes":
        return [stream[i:i + 1] for i in range(n)]
    k = rng.randrange(1, min(n, 12))
    pts = sorted(rng.sample(range(1, n), k))
    return [stream[a:b] for a, b in zip([0] + pts, pts + [n])]


class Check(PropertyCheck):
    pid = "C02"
    gen_files = ["GenAsh", "GenAshFn", "GenAshRxFn", "GenAshLoopFn"]
    model_imports = ["gen.GenAsh", "model.AshCodec", "model.AshRx"]
    run_expr = "run_c02_case"
    case_type = "(list (list N))"
    shard = 400
    rule = ("byte streams: exhaustive over the reserved-byte-rich alphabet {7E,7D,11,13,18,1A,5E,C0,00} up to a length bound under "
            "ALL 2^(n-1) chunkings; token streams built from valid frames (in/out of sequence, with escapes, RSTACK, ERROR), bad-CRC "
            "frames, dangling / doubled / inserted escapes, control bytes and garbage, mutated by insert/delete/flip, under one-read / byte-by-byte / "
            "random chunkings; reads larger than the receive buffer; flag-free garbage for the memory bound. non-trivial = the "
            "stream contains a FLAG; distinct by (stream, chunking)")
    assumptions = ["transport open", "chunkings whose unterminated residue stays within MAX_BUFFER_SIZE (the property's quantifier)"]

    def case_from_json(self, j):
        return [bytes.fromhex(c) for c in j["chunks"]]

    def tokens(self, rng):
        seq = 0
        toks = []
        for _ in range(rng.randrange(1, 7)):
            r = rng.random()
            if r < 0.45:
                pl = bytes(rng.choice([0x7E, 0x7D, 0x11, 0x13, 0x18, 0x1A, rng.randrange(256)]) for _ in range(rng.randrange(0, 6)))
                frm = seq if rng.random() < 0.8 else rng.randrange(8)
                toks.append(ashref.wire(("DATA", frm, rng.randrange(2), rng.randrange(8), pl)))
                if frm == seq:
                    seq = (seq + 1) % 8
            elif r < 0.55:
                toks.append(ashref.wire(rng.choice([("ACK", 0, 0, 2), ("NAK", 0, 0, 1), ("RST",), ("RSTACK", 2, 11), ("ERROR", 2, 0x51)])))
                if toks[-1][0] == 0xC1:
                    seq = 0
            elif r < 0.65:
                w = bytearray(ashref.wire(("DATA", seq, 0, 0, b"abc")))
                w[rng.randrange(len(w) - 1)] ^= 1 << rng.randrange(8)
                toks.append(bytes(w))
            elif r < 0.72:
                toks.append(ashref.wire(("DATA", seq, 0, 0, b"x"))[:-1] + bytes([0x7D, 0x7E]))   # dangling escape
            elif r < 0.9:
                toks.append(bytes([rng.choice([0x7E, 0x1A, 0x18, 0x11, 0x13, 0x7D])]))
            else:
                toks.append(bytes(rng.randrange(256) for _ in range(rng.randrange(1, 5))))
        return b"".join(toks)

    def build_cases(self, tier, rng):
        cases = []
        ex = 3 if tier == "quick" else 5
        for n in range(0, ex + 1):
            for s in itertools.product(ALPHA, repeat=n):
                s = bytes(s)
                for cuts in chunkings(n):
                    cases.append([s[a:b] for a, b in cuts])
        if tier == "quick":
            for s in itertools.product(ALPHA, repeat=4):
                s = bytes(s)
                cases.append([s])
                cases.append([s[i:i + 1] for i in range(4)])
        # short real frames under all chunkings
        for fr in [("RST",), ("ACK", 0, 0, 1), ("RSTACK", 2, 11), ("DATA", 0, 0, 0, b"\x7e")]:
            w = ashref.wire(fr)
            for cuts in chunkings(len(w))[:: (1 if tier == "thorough" else 5)]:
                cases.append([w[a:b] for a, b in cuts])
        n_tok = 500 if tier == "quick" else 12000
        for i in range(n_tok):
            s = bytearray(self.tokens(rng))
            for _ in range(rng.choice([0, 0, 1, 2])):
                if not s:
                    break
                m = rng.random()
                j = rng.randrange(len(s))
                if m < 0.34:
                    s.insert(j, rng.choice(ALPHA + [rng.randrange(256)]))
                elif m < 0.67:
                    del s[j]
                else:
                    s[j] ^= 1 << rng.randrange(8)
            s = bytes(s)
            for mode in ("one", "bytes", "rand", "rand", "rand"):
                cases.append(cut(s, rng, mode))
        # damaged escape sequences inside otherwise valid frames: the escape byte doubled / tripled, an escape byte
        # inserted before an ordinary byte, the escaped value replaced -- the CRC of the collapsed bytes would match
        for i in range(60 if tier == "quick" else 1500):
            pl = bytes(rng.choice([0x7E, 0x7D, 0x11, 0x13, 0x18, 0x1A]) if rng.random() < 0.6 else rng.randrange(256)
                       for _ in range(rng.randrange(1, 5)))
            w = bytearray(ashref.wire(("DATA", 0, 0, rng.randrange(8), pl)))
            escs = [k for k in range(len(w) - 1) if w[k] == 0x7D]
            if not escs:
                continue
            k = rng.choice(escs)
            m = i % 4
            if m == 0:
                w.insert(k, 0x7D)
            elif m == 1:
                w.insert(k, 0x7D)
                w.insert(k, 0x7D)
            elif m == 2:
                w[k + 1] = rng.choice([0x7D, 0x5D ^ 0x20, 0x00, 0x41])
            else:
                j = rng.randrange(len(w) - 1)
                w.insert(j, 0x7D)
            s = bytes(w) + ashref.wire(("DATA", 1, 0, 0, b"z"))
            for mode in ("one", "bytes", "rand"):
                cases.append(cut(s, rng, mode))
        # CRC-valid DATA frames around and beyond the longest admissible data field (the receiver's only length check
        # sits behind the CRC check): 256 bytes are delivered, more are rejected like any unparsable frame, and the
        # frames after them in the same read are processed
        for n in (255, 256, 257, 258, 300, 500):
            body = bytes([0x00]) + bytes(rng.randrange(256) for _ in range(n))      # control byte DATA(0), n data bytes
            w = ashref.stuff(ashref.with_crc(body)) + bytes([0x7E])
            if len(w) > 1000:
                continue
            s = w + ashref.wire(("DATA", 1 if n <= 256 else 0, 0, 0, b"after"))
            for mode in ("one", "bytes", "rand"):
                cases.append(cut(s, rng, mode))
        # reset notifications: every CRC-valid RSTACK / ERROR frame is passed up, also the second and third one with the
        # same code, with or without other frames in between
        codes = [0x51, 0x0B, 0x00, 0x02, 0xFF] if tier == "quick" else [0x51, 0x52, 0x0B, 0x00, 0x01, 0x02, 0x06, 0x09, 0x80, 0xFF]
        for c in codes:
            for k in ("ERROR", "RSTACK"):
                one = ashref.wire((k, 2, c))
                other = ashref.wire(("ERROR" if k == "RSTACK" else "RSTACK", 2, c))
                for s in (one + one, one + one + one, one + ashref.wire(("DATA", 0, 0, 0, b"d")) + one,
                          one + ashref.wire(("ACK", 0, 0, 1)) + one, one + other + one,
                          one + ashref.wire((k, 2, c ^ 1)) + one):
                    for mode in ("one", "bytes", "rand"):
                        cases.append(cut(s, rng, mode))
        # a frame whose two CRC bytes are exchanged (the CRC is big-endian) is not a frame
        for fr in [("ACK", 0, 0, 0), ("NAK", 1, 1, 4), ("RST",), ("RSTACK", 2, 8), ("ERROR", 2, 25), ("DATA", 1, 1, 2, b"\x11\x13"),
                   ("DATA", 0, 0, 0, b"abc")]:
            raw = ashref.encode(fr)
            sw = ashref.stuff(raw[:-2] + raw[-1:] + raw[-2:-1]) + bytes([0x7E])
            s = sw + ashref.wire(("DATA", 0, 0, 0, b"next"))
            for mode in ("one", "bytes", "rand"):
                cases.append(cut(s, rng, mode))
        # reserved bytes that take effect at once (SUBSTITUTE, XON / XOFF) arriving in reads WITHOUT a flag, followed by more
        # than a buffer's worth of flag-free bytes in flag-free reads, then the flag: the residue the reference keeps is tiny
        good = ashref.wire(("DATA", 0, 0, 0, b"kept"))
        for chunk in (64, 300, 700):
            junk = bytes(0x41 + (i % 20) for i in range(1300))
            s = bytes([0x18]) + junk + bytes([0x7E]) + good
            cases.append([s[:1]] + [junk[i:i + chunk] for i in range(0, len(junk), chunk)] + [bytes([0x7E]) + good])
            cases.append([b"\x30\x31" + s[:1] + junk[:10]] + [junk[i:i + chunk] for i in range(10, len(junk), chunk)] + [bytes([0x7E])] + [good])
            half = len(good) // 2
            xs = bytes([0x11, 0x13]) * 600
            cases.append([good[:half]] + [xs[i:i + chunk] for i in range(0, len(xs), chunk)] + [good[half:]])
            cases.append([good[:half] + xs[:5]] + [xs[i:i + chunk] for i in range(5, len(xs), chunk)] + [good[half:-1], good[-1:]])
        # reads larger than the receive buffer that contain complete frames
        for nfr in ([12, 30] if tier == "quick" else [12, 20, 30, 60, 100]):
            fr = [ashref.wire(("DATA", k % 8, 0, 0, bytes([k]) + bytes(rng.randrange(256) for _ in range(90)))) for k in range(nfr)]
            s = b"".join(fr)
            cases.append([s])
            cases.append([s[i:i + 64] for i in range(0, len(s), 64)])
            cases.append([bytes([0x41]) * 300, s])
        # garbage without a flag, then a valid frame: the residue exceeds the bound, outside the
        # quantifier for decoding but inside it for boundedness and totality
        g = bytes(rng.choice([0x00, 0x7D, 0x41, 0x5E]) for _ in range(3000))
        cases.append([g[i:i + 700] for i in range(0, len(g), 700)] + [b"\x7e" + ashref.wire(("RST",))])
        return cases

    def run_impl(self, case):
        p, rec = ashrun.new_protocol()
        maxbuf = 0
        try:
            for ch in case:
                p.data_received(bytes(ch))
                maxbuf = max(maxbuf, len(p._buffer))
        except BaseException as e:  # noqa
            return {"crash": repr(e), "events": [list(x) for x in ashrun.rx_events(rec.log)], "maxbuf": maxbuf}
        return {"events": [list(x) for x in ashrun.rx_events(rec.log)], "buf": len(p._buffer),
                "disc": bool(p._discarding_until_next_flag), "rx": p._rx_seq, "maxbuf": maxbuf}

    def describe(self, case):
        d = [bytes(c).hex() for c in case]
        if sum(len(x) for x in d) > 600:
            return {"chunks": len(d), "first": d[0][:200], "sizes": [len(c) for c in case][:50], "full_len": sum(len(c) for c in case)}
        return d

    def model_input(self, case):
        return "[" + ";".join("[" + ";".join(str(b) for b in ch) + "]" for ch in case) + "]"

    def obs_to_z(self, case, obs):
        if "crash" in obs:
            return [-99]
        return ashrun.events_to_z([tuple(e) for e in obs["events"]]) + [-7, obs["buf"], 1 if obs["disc"] else 0, obs["rx"]]

    def within_quantifier(self, case):
        ref = ashref.RefDecoder()
        for ch in case:
            ref.feed(bytes(ch))
            if len(ref.acc) > MAXBUF:
                return False
        return True

    def monitor(self, case, obs):
        if "crash" in obs:
            return f"data_received raised {obs['crash']}"
        if obs["maxbuf"] > MAXBUF:
            return f"receive buffer grew to {obs['maxbuf']} bytes (> {MAXBUF})"
        if not self.within_quantifier(case):
            return None
        ref = ashref.RefDecoder().feed(b"".join(bytes(c) for c in case))
        got = [tuple(e) for e in obs["events"]]
        if got != ref.events:
            for i, (g, w) in enumerate(itertools.zip_longest(got, ref.events)):
                if g != w:
                    return f"event #{i}: implementation {_short(g)}, reference decoder {_short(w)}"
        return None

    def nontrivial(self, case, obs):
        return any(0x7E in bytes(c) for c in case)

    def signature(self, case, obs, why):
        return "rxbytes:" + why[:40]

    def shrink(self, case, still_fails):
        chunks = [bytes(c) for c in case]
        # first try fewer chunks, then shorter chunks
        changed = True
        while changed and len(chunks) > 1:
            changed = False
            for i in range(len(chunks)):
                cand = chunks[:i] + chunks[i + 1:]
                if still_fails(cand):
                    chunks, changed = cand, True
                    break
        return chunks

    def extra_checks(self, rep, tier, rng):
        """memory bound under multi-megabyte flag-free garbage (tracemalloc peak)"""
        import tracemalloc
        p, rec = ashrun.new_protocol()
        total = (256 << 10) if tier == "quick" else (8 << 20)
        blk = bytes(rng.choice([0x00, 0x41, 0x7D, 0x5E, 0xFF]) for _ in range(4096))
        tracemalloc.start()
        base = tracemalloc.get_traced_memory()[0]
        fed, worst = 0, 0
        try:
            while fed < total:
                p.data_received(blk)
                fed += len(blk)
                worst = max(worst, len(p._buffer))
            peak = tracemalloc.get_traced_memory()[1] - base
        except BaseException as e:  # noqa
            tracemalloc.stop()
            rep.violation({"input": f"{fed} bytes of flag-free garbage in 4096-byte reads", "observed": repr(e),
                           "required": "no exception"}, found_input=True, signature="rxbytes:garbage-raise")
            return
        tracemalloc.stop()
        rep.cov["garbage_bytes_fed"] = fed
        rep.cov["garbage_buffer_max"] = worst
        rep.cov["garbage_tracemalloc_peak_bytes"] = peak
        if worst > MAXBUF or peak > 64 * 4096:
            rep.violation({"input": f"{fed} bytes of flag-free garbage in 4096-byte reads",
                           "observed": {"buffer": worst, "tracemalloc_peak": peak},
                           "required": f"held memory bounded (buffer <= {MAXBUF})"}, found_input=True,
                          signature="rxbytes:garbage-memory")


def _short(e):
    if e is None:
        return "nothing"
    return repr(tuple(x.hex() if isinstance(x, bytes) else x for x in e))[:120]
