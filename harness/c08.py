"""C08: malformed / unexpected EZSP frames -- real EZSP.frame_received on raw bytes vs the Coq byte-level model."""
import asyncio

import ezsptypes as et
import vloop
from c07 import enc_ivals
from framework import PropertyCheck

VERSIONS_QUICK = [4, 7, 8, 13, 14]


class Bench:
    """one EZSP object per version, reset between cases"""

    def __init__(self, version):
        import stack
        self.loop = vloop.VLoop()
        asyncio.set_event_loop(self.loop)
        self.version = version
        self.stack = stack

    def fresh(self):
        ez = self.stack.make_ezsp(self.version)
        log = []

        def cb(name, args):
            proto = ez._protocol
            if name not in proto.COMMANDS:
                log.append(("cbx", name))
                return
            cid, tx, rx = proto.COMMANDS[name]
            vals = list(args) if isinstance(rx, dict) else args
            log.append(("cb", cid, enc_ivals(et.flat_schema_values(rx, vals))))
        ez.add_callback(cb)
        return ez, log


def valid_frame(proto, name, seq, rng, mode="rand"):
    import bellows.types as t
    cid, tx, rx = proto.COMMANDS[name]
    vals = [et.gen_value(ty, rng, mode) for ty in rx.values()] if isinstance(rx, dict) else et.gen_value(rx, rng, mode)
    payload = t.serialize_dict(vals, {}, rx) if isinstance(rx, dict) else vals.serialize()
    saved = proto._seq
    proto._seq = seq
    hdr = bytes(proto._ezsp_frame_tx(name))
    proto._seq = saved
    return hdr + payload


class Check(PropertyCheck):
    pid = "C08"
    gen_files = ["GenCmd", "GenProto", "GenEzspFn", "GenProtoFn"]
    model_imports = ["lib.EzspTypes", "gen.GenCmd", "gen.GenProto", "model.EzspCodec", "model.EzspProto", "model.EzspCases"]
    run_expr = "run_c08_case"
    case_type = "(N * option (Z * N) * list N)"
    shard = 300
    rule = ("frames derived from valid responses and callbacks of the active version by truncation at every length, single-byte "
            "flips, frame-id and sequence-number substitution, late frames for a command that has already timed out or been cancelled, proper frames under numbers an earlier handler object had left timed out, frame ids defined only by other protocol versions (with their payloads), plus uniformly random byte strings and the empty frame; each with no "
            "pending command and with a pending command (same command, another command, same or other sequence number); after each "
            "frame the pending command is answered properly and a fresh command is run to completion; non-trivial = not the "
            "unmodified valid frame; distinct by (version, pending, bytes)")
    assumptions = ["zigpy deserialisers are modelled (C07); any exception type they raise is an Exception subclass caught by frame_received"]

    def setup(self):
        self.bench = {}

    def teardown(self):
        for b in self.bench.values():
            b.loop.close()

    def build_cases(self, tier, rng):
        import bellows.ezsp as E
        et.LENIENT_QUIRKS = True       # the translation stage is over: the harness goes by the documented key-structure quirk
        versions = VERSIONS_QUICK if tier == "quick" else sorted(E.EZSP._BY_VERSION)
        cases = []
        for v in versions:
            cls = E.EZSP._BY_VERSION[v]
            inst = cls(lambda *a: None, None)
            names = list(cls.COMMANDS)
            base = ["version", "getEui64", "incomingMessageHandler", "stackStatusHandler", "messageSentHandler",
                    "invalidCommand", "getConfigurationValue", "trustCenterJoinHandler", "getNetworkParameters",
                    "readCounters"]
            # responses whose schema is a struct of its own (a status followed by fields that are present only on success) go
            # through another decoding branch: always included, truncated at every length
            structs = [n for n in names if not isinstance(cls.COMMANDS[n][2], dict)]
            base = [n for n in base if n in cls.COMMANDS] + structs + rng.sample(names, 8 if tier == "quick" else 30)
            pend_choices = [None, "getEui64", "same"]
            for name in base:
                for pend in pend_choices:
                    pname = name if pend == "same" else pend
                    if pname is not None and (pname.endswith("Handler") or pname == "invalidCommand"):
                        pname = "getEui64"
                    seq = 0 if rng.random() < 0.7 else rng.randrange(256)     # the pending call always has seq 0
                    fr = valid_frame(inst, name, seq, rng, rng.choice(["lo", "rand", "rand", "hi"]))
                    if len(fr) > 90:
                        fr = valid_frame(inst, name, seq, rng, "lo")
                    cases.append({"v": v, "pending": pname, "data": fr.hex(), "kind": "valid", "name": name})
                    for n in range(len(fr)):
                        cases.append({"v": v, "pending": pname, "data": fr[:n].hex(), "kind": "trunc"})
                    nflip = 6 if tier == "quick" else 30
                    for _ in range(nflip):
                        b = bytearray(fr)
                        b[rng.randrange(len(b))] ^= 1 << rng.randrange(8)
                        cases.append({"v": v, "pending": pname, "data": bytes(b).hex(), "kind": "flip"})
                    # frame-id substitution: another command's id in front of this payload
                    other = rng.choice(names)
                    hdr_len = 3 if v == 4 else 5
                    ofr = valid_frame(inst, other, seq, rng, "lo")
                    cases.append({"v": v, "pending": pname, "data": (ofr[:hdr_len] + fr[hdr_len:]).hex(), "kind": "idsub"})
                    cases.append({"v": v, "pending": pname, "data": (bytes([rng.randrange(256)]) + fr[1:]).hex(), "kind": "seqsub"})
            # frame ids this version does not define but another version does (older commands removed, newer ones not
            # yet known): payload valid for the version that defines it; none may be decoded, dispatched or complete a call
            own_ids = {c[0] for c in cls.COMMANDS.values()}
            foreign = {}
            for ov, ocls in E.EZSP._BY_VERSION.items():
                for oname, (oid, _otx, _orx) in ocls.COMMANDS.items():
                    if oid not in own_ids and oid < (256 if v < 8 else 65536):
                        foreign.setdefault(oid, (ov, oname))
            fids = sorted(foreign)
            if tier == "quick" and len(fids) > 12:
                fids = rng.sample(fids, 12)
            hdr_len = 3 if v == 4 else 5
            for oid in fids:
                ov, oname = foreign[oid]
                oinst = E.EZSP._BY_VERSION[ov](lambda *a: None, None)
                body = valid_frame(oinst, oname, 0, rng, "rand")[3 if ov == 4 else 5:]
                hdr = bytes([0, 0x80, oid]) if v == 4 else bytes([0, 0x80, 0xFF, 0x00, oid]) if v < 8 else bytes([0, 0x80, 0x01, oid & 0xFF, oid >> 8])
                for pname in (None, "getEui64"):
                    cases.append({"v": v, "pending": pname, "data": (hdr + body).hex(), "kind": "foreign-id"})
                # ... and right afterwards, in the same process, the version that DOES define the id handles a proper frame
                # of that command (the host has switched versions meanwhile): it must be decoded and dispatched as ever
                if ov in versions and ov != v:
                    good = valid_frame(oinst, oname, 0, rng, "rand")
                    if len(good) <= 90:
                        opend = oname if not (oname.endswith("Handler") or oname == "invalidCommand") else None
                        cases.append({"v": ov, "pending": opend, "data": good.hex(), "kind": "valid-after-foreign"})
            # the same frame in ANOTHER version's header layout (an NCP / a bootstrap handler speaking the other format): a
            # legacy-layout handler meets the extended layout [seq, fc, 0xFF, 0x00, id] -- 0xFF is not a frame id of its
            # version, nothing may be dispatched or completed -- and an extended-layout handler meets the legacy one
            for name in [n for n in ("stackStatusHandler", "getEui64", "getConfigurationValue", "getMfgToken", "version",
                                     "incomingMessageHandler") if n in cls.COMMANDS]:
                fr = valid_frame(inst, name, 0, rng, "rand")
                cid = cls.COMMANDS[name][0]
                body = fr[3 if v == 4 else 5:]
                if v == 4:
                    alts = [bytes([0, 0x80, 0xFF, 0x00, cid & 0xFF]) + body, bytes([0, 0x80, 0xFF, cid & 0xFF]) + body,
                            bytes([0, 0x80, 0x01, cid & 0xFF, 0x00]) + body]
                else:
                    alts = [bytes([0, 0x80, cid & 0xFF]) + body]
                for alt in alts:
                    for pname in (None, "getEui64", name if not name.endswith("Handler") else "getEui64"):
                        cases.append({"v": v, "pending": pname, "data": alt.hex(), "kind": "other-layout"})
            # late frames: the command they answer has already timed out / been cancelled (its entry is still registered
            # until the sequence number comes round again): the proper response, one with trailing bytes, invalidCommand,
            # another command's response -- none may raise or disturb what follows
            for pname in ("getEui64", "version"):
                if pname not in cls.COMMANDS:
                    continue
                good = valid_frame(inst, pname, 0, rng, "rand")
                inv = valid_frame(inst, "invalidCommand", 0, rng, "lo")
                other = valid_frame(inst, "getNodeId", 0, rng, "lo")
                for stale in ("timeout", "cancelled"):
                    for fr in (good, good + b"\x00\x01", inv, other, good[:-1]):
                        cases.append({"v": v, "pending": pname, "stale": stale, "data": fr.hex(), "kind": "late"})
                    # ... and the caller has retried the command meanwhile (pending under the next number) when the late reply
                    # to the first attempt arrives under the old number: a frame carrying another sequence number completes nothing
                    cases.append({"v": v, "pending": pname, "stale": stale, "retry": True, "data": good.hex(), "kind": "late"})
            # an EARLIER handler object (the one replaced at the last reset / version switch) was left with commands that had
            # timed out under the numbers 0..3: the handler in use has nothing outstanding, proper frames carrying those
            # numbers are callbacks for it (or answer its own pending command under number 0)
            for name in [n for n in ("stackStatusHandler", "getEui64", "incomingMessageHandler", "getNodeId", "messageSentHandler")
                         if n in cls.COMMANDS]:
                for sq in (0, 1, 2, 3):
                    fr = valid_frame(inst, name, sq, rng, "rand")
                    if len(fr) > 90:
                        continue
                    for pname in ((None, "getEui64") if sq == 0 else (None,)):
                        cases.append({"v": v, "pending": pname, "prior": 4, "data": fr.hex(), "kind": "after-old-handler", "name": name})
            # the one response whose value is present only on success (getTokenData, v9..v13: status, then -- iff the status
            # is SUCCESS -- a value with a 32-bit length): a SUCCESS reply built by hand, truncated at every length
            if "getTokenData" in cls.COMMANDS and not isinstance(cls.COMMANDS["getTokenData"][2], dict) and v < 14:
                hdr = valid_frame(inst, "getTokenData", 0, rng, "lo")[:5]
                full = hdr + b"\x00" + (6).to_bytes(4, "little") + bytes(rng.randrange(256) for _ in range(6))
                for n in range(5, len(full) + 1):
                    for pname in (None, "getTokenData"):
                        cases.append({"v": v, "pending": pname, "data": full[:n].hex(), "kind": "token-success"})
            # EmberKeyStruct's deserialisation quirk: a remainder of exactly 24 bytes is padded (IPad in the model)
            for name in ("getKeyTableEntry", "getKey"):
                if name in cls.COMMANDS:
                    full = valid_frame(inst, name, 0, rng, "rand")
                    hdr_len = 3 if v == 4 else 5
                    for n in range(hdr_len, len(full)):          # truncation at every length, unsolicited and as the reply
                        for pname in (None, name):
                            cases.append({"v": v, "pending": pname, "data": full[:n].hex(), "kind": "keystruct"})
                    for tail_len in (23, 24, 25):
                        fr = full[:hdr_len] + b"\x00" + bytes(rng.randrange(256) for _ in range(tail_len))
                        for pname in (None, name):
                            cases.append({"v": v, "pending": pname, "data": fr.hex(), "kind": "keystruct"})
            nrand = 300 if tier == "quick" else 8000
            for _ in range(nrand):
                n = rng.choice([0, 1, 2, 3, 4, 5, 6, 8, 12, 20, 40])
                cases.append({"v": v, "pending": rng.choice([None, "getEui64", "version"]),
                              "data": bytes(rng.randrange(256) for _ in range(n)).hex(), "kind": "random"})
        return cases

    def run_impl(self, case):
        import random
        v = case["v"]
        if v not in self.bench:
            self.bench[v] = Bench(v)
        b = self.bench[v]
        asyncio.set_event_loop(b.loop)
        ez, log = b.fresh()
        proto = ez._protocol
        rng = random.Random(1)
        out = {"raised": None}
        res = {}

        async def caller(key, name):
            cid, tx, rx = proto.COMMANDS[name]
            args = [et.gen_value(ty, rng, "lo") for ty in tx.values()]
            try:
                r = await proto.command(name, *args)
                vals = list(r) if isinstance(rx, dict) else r
                res[key] = ["ret", enc_ivals(et.flat_schema_values(rx, vals))]
            except asyncio.TimeoutError:
                res[key] = ["timeout"]
            except Exception as e:  # noqa
                res[key] = ["raise", type(e).__name__]

        for _ in range(case.get("prior", 0)):
            # commands of an earlier handler object that ended by their time-out (numbers 0, 1, ...)
            if _ == 0:
                old_ez, _old_log = b.fresh()
            oproto = old_ez._protocol

            async def old_caller():
                try:
                    await oproto.command("getNodeId")
                except BaseException:  # noqa
                    pass
            b.loop.create_task(old_caller())
            b.loop.settle()
            b.loop.tick()
            b.loop.settle()
        task = None
        if case["pending"]:
            task = b.loop.create_task(caller("p", case["pending"]))
            b.loop.settle()          # registered under seq 0, gateway stub send_data returns at once
            if case.get("stale") == "timeout":
                b.loop.tick()        # the command timeout fires: the call has ended, its entry is still registered
            elif case.get("stale") == "cancelled":
                task.cancel()
                b.loop.settle()
        retry = None
        if case.get("retry"):
            retry = b.loop.create_task(caller("r", case["pending"]))
            b.loop.settle()          # registered under the next sequence number
        try:
            ez.frame_received(bytes.fromhex(case["data"]))
        except BaseException as e:  # noqa
            out["raised"] = repr(e)
        b.loop.settle()
        out["first"] = {"p": res.get("p"), "cbs": [list(x) for x in log], "awaiting": len(proto._awaiting)}
        if retry is not None:
            out["first"]["retry"] = res.get("r")
            if not retry.done():
                ez.frame_received(valid_frame(proto, case["pending"], 1, rng, "lo"))
                b.loop.settle()
            out["first"]["retry_after_own_reply"] = res.get("r")
            if not retry.done():
                retry.cancel()
                b.loop.settle()
        # afterwards: the pending call (if still pending) gets its proper reply; then a fresh command works
        del log[:]
        try:
            if task is not None and not task.done():
                ez.frame_received(valid_frame(proto, case["pending"], 0, rng, "lo"))
                b.loop.settle()
                if not task.done():
                    b.loop.tick()          # its entry was dropped by a mismatching frame: ends by timeout
            seq = proto._seq
            t2 = b.loop.create_task(caller("n", "getNodeId"))
            b.loop.settle()
            ez.frame_received(valid_frame(proto, "getNodeId", seq, rng, "lo"))
            b.loop.settle()
            out["after"] = {"p": res.get("p"), "n": res.get("n")}
            for t in (task, t2):
                if t is not None and not t.done():
                    t.cancel()
            b.loop.settle()
        except BaseException as e:  # noqa
            out["after"] = {"crash": repr(e)}
        return out

    def describe(self, case):
        return case

    def model_input(self, case):
        import bellows.ezsp as E
        if case.get("stale"):
            return None          # judged by the predicate: nothing raises, nothing is dispatched wrongly, later commands work
        cls = E.EZSP._BY_VERSION[case["v"]]
        if case["pending"]:
            inst = cls.__new__(cls)
            pend = f"(Some (({cls._get_command_priority(inst, case['pending'])})%Z, {cls.COMMANDS[case['pending']][0]}))"
        else:
            pend = "None"
        return f"({case['v']}, {pend}, [{';'.join(str(b) for b in bytes.fromhex(case['data']))}])"

    def obs_to_z(self, case, obs):
        if obs["raised"]:
            return [-99]
        z = []
        f = obs["first"]
        # model order: the completion of the pending call / callbacks are mutually exclusive per frame
        if f["p"] is not None:
            if f["p"][0] == "ret":
                z += [2, 0] + f["p"][1]
            elif f["p"][0] == "raise" and f["p"][1] == "InvalidCommandError":
                z += [3, 0, 2]
            else:
                z += [-60]
        for c in f["cbs"]:
            z += [4, c[1]] + c[2] if c[0] == "cb" else [-61]
        ncalls = 0 if (case["pending"] is None or f["p"] is not None) else 1
        return z + [-1, f["awaiting"], ncalls]

    def monitor(self, case, obs):
        if obs["raised"]:
            return f"frame_received raised {obs['raised']}"
        if "crash" in obs.get("after", {}):
            return f"afterwards: {obs['after']['crash']}"
        a = obs["after"]
        if a["n"] is None or a["n"][0] != "ret":
            return f"a command issued after the frame did not complete normally: {a['n']}"
        f = obs["first"]
        if case.get("retry"):
            if f.get("retry") is not None:
                return (f"the late reply to the first attempt (sequence number 0) completed the retried {case['pending']} pending under "
                        f"sequence number 1: {f['retry']}")
            if f.get("retry_after_own_reply") is None or f["retry_after_own_reply"][0] != "ret":
                return f"the retried {case['pending']} was not completed by its own reply: {f.get('retry_after_own_reply')}"
        if case.get("stale"):
            if f["p"] is not None and f["p"][0] == "ret":
                return "a command that had timed out / been cancelled returned a value"
            if f["cbs"]:
                return f"a late frame for a command that had ended was dispatched to the callbacks: {f['cbs'][:1]}"
            return None
        if f["p"] is not None and f["p"][0] == "ret":
            # completion requires the pending call's own sequence number (0) and its own frame id
            import bellows.ezsp as E
            data = bytes.fromhex(case["data"])
            v = case["v"]
            want = E.EZSP._BY_VERSION[v].COMMANDS[case["pending"]][0]
            try:
                got = data[2] if v == 4 else data[4] if v < 8 else data[3] | data[4] << 8
                seq = data[0]
            except IndexError:
                return "a frame without a complete header completed the pending command"
            if seq != 0 or got != want:
                return f"pending command (seq 0, frame id {want:#x}) completed by a frame with seq {seq}, frame id {got:#x}"
        if f["cbs"] and f["p"] is not None:
            return "one frame both completed a command and was delivered as a callback"
        if case["kind"] == "valid" and case.get("name") == "invalidCommand" and case["pending"] is not None \
                and bytes.fromhex(case["data"])[0] == 0:
            # the NCP's "invalid command" reply under the pending call's sequence number: that call raises the invalid-command
            # error (it is never completed with a payload, and never left to time out)
            if f["p"] is None or f["p"] != ["raise", "InvalidCommandError"]:
                return (f"an invalidCommand reply under the sequence number of the pending {case['pending']} did not make that call "
                        f"raise the invalid-command error: {f['p']}")
        if case["kind"] == "after-old-handler" and case["pending"] is None and len(f["cbs"]) != 1:
            return (f"a proper {case['name']} frame (sequence number {bytes.fromhex(case['data'])[0]}) reached a handler with nothing "
                    f"outstanding and was delivered to the callbacks {len(f['cbs'])} times; an earlier handler object had been left "
                    f"with timed-out commands under the numbers 0..{case['prior'] - 1}")
        if case["kind"] == "valid-after-foreign":
            # a proper frame of the active version: it completes its pending command, or is delivered to the callbacks once
            if case["pending"] is not None and (f["p"] is None or f["p"][0] != "ret"):
                return (f"a proper v{case['v']} response to the pending {case['pending']} did not complete it ({f['p']}); a frame "
                        f"with the same id had been received earlier while another protocol version was active")
            if case["pending"] is None and len(f["cbs"]) != 1:
                return (f"a proper v{case['v']} callback frame was delivered to the callbacks {len(f['cbs'])} times; a frame with the "
                        f"same id had been received earlier while another protocol version was active")
        import bellows.ezsp as E
        v = case["v"]
        data = bytes.fromhex(case["data"])
        own = {c[0]: n for n, c in E.EZSP._BY_VERSION[v].COMMANDS.items()}
        try:
            fid = data[2] if v == 4 else data[4] if v < 8 else data[3] | data[4] << 8
        except IndexError:
            fid = None
        for cb in f["cbs"]:
            if cb[0] == "cbx":
                return f"callback dispatched under the name {cb[1]!r}, which protocol version {v} does not define (frame id {fid!r})"
            if cb[1] not in own:
                return f"callback dispatched for frame id {cb[1]:#x}, which protocol version {v} does not define"
            if cb[1] != fid:
                return f"callback for frame id {cb[1]:#x} dispatched from a frame carrying id {fid!r}"
            # the frame must decode fully under that command's response schema (stated by an independent decoder over the
            # flat wire layout; trailing bytes are tolerated as the library tolerates them)
            import ezsptypes as et
            rx = E.EZSP._BY_VERSION[v].COMMANDS[own[fid]][2]
            try:
                full = et.flat_decodes(et.items_of_schema(rx), data[3 if v == 4 else 5:])
            except et.Unsupported:
                full = None
            if own[fid] == "getTokenData" and v < 14:
                # stated from the EZSP reference, not from the library's schema: status byte, then -- iff it is SUCCESS (0) --
                # the token value with its 32-bit length
                pl = data[5:]
                if len(pl) >= 1 and pl[0] == 0 and not (len(pl) >= 5 and len(pl) >= 5 + int.from_bytes(pl[1:5], "little")):
                    full = False
            if full is False:
                return (f"callback {own[fid]} invoked for a frame whose payload ({len(data) - (3 if v == 4 else 5)} bytes) does not "
                        f"decode fully under the schema of version {v}")
        if fid is not None and fid not in own and case["pending"] is not None:
            if a.get("p") is None or a["p"][0] != "ret":
                return (f"a frame with id {fid:#x} (not defined by version {v}) made the pending command unanswerable: "
                        f"its proper reply afterwards gave {a.get('p')}")
        return None

    def extra_checks(self, rep, tier, rng):
        import ezsptypes as et
        bad = et.unified_status_violations()
        rep.cov["unified_status_fields_checked"] = True
        if bad:
            v, name, side, field = bad[0]
            rep.violation({"input": {"version": v, "command": name, "schema": side, "field": field},
                           "observed": f"{len(bad)} field(s) of the v14+ tables still have a one-byte legacy status type: {bad[:6]}",
                           "required": "a frame of the active version is one in that version's wire format: from EZSP v14 on every status travels as the 32-bit unified status, so a frame carrying a one-byte status there is truncated / of another version and must not be dispatched"}, found_input=True, signature="tables:legacy-status-in-v14")

    def nontrivial(self, case, obs):
        return case["kind"] != "valid"

    def signature(self, case, obs, why):
        return "ezspbytes:" + why[:50]
