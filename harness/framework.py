"""Generic driver: gen -> make -> correspondence -> monitor/search -> verdict + evidence."""
from __future__ import annotations

import json
import random
import re
import time
import traceback

import common
from common import (COQ, CoqBuildError, Report, coq_make, enclosing_statement, first_error,
                    hygiene_gate, print_assumptions, props_theorems, run_cases_in_coq)

TRUSTED_BASE_COMMON = [
    "Coq 8.16.1 kernel incl. vm_compute (no native_compute)",
    "translator harness/gen.py (runtime introspection of the imported bellows modules, fail-closed)",
    "correspondence harness (harness/*.py, CPython 3.12.1 from /venv) driving the real bellows code; "
    "model evaluated inside Coq by vm_compute on a generated cases file",
    "modelled, not verified: zigpy primitives, asyncio, NCP firmware",
]


class PropertyCheck:
    pid = "C00"
    level = "proof"
    gen_files: list[str] = []
    model_imports: list[str] = []      # modules needed to *run* the model
    run_expr = ""                      # Gallina: input -> list Z
    case_preamble = ""
    case_type = None                   # Gallina type of a model input (needed when literals are ambiguous)
    shard = 400
    assumptions: list[str] = []
    rule = ""

    # ---- to be provided by subclasses --------------------------------------------------
    def corpus_cases(self) -> list:
        """minimised past failures, replayed first on every run (corpus/<pid>/*.json)"""
        import json
        out = []
        d = common.VERIF / "corpus" / self.pid
        if d.is_dir():
            for f in sorted(d.glob("*.json")):
                out.append(self.case_from_json(json.loads(f.read_text())))
        return out

    def case_from_json(self, j):
        return j

    def build_cases(self, tier: str, rng: random.Random) -> list:
        raise NotImplementedError

    def run_impl(self, case):
        raise NotImplementedError

    def model_input(self, case) -> str:
        raise NotImplementedError

    def obs_to_z(self, case, obs) -> list[int]:
        raise NotImplementedError

    def monitor(self, case, obs) -> str | None:
        """Property predicate on the implementation's own observation; None = holds."""
        return None

    def nontrivial(self, case, obs) -> bool:
        return True

    def signature(self, case, obs, why) -> str | None:
        """Stable identifier of a failing case, matched against known_findings.json."""
        return None

    def shrink(self, case, still_fails) -> object:
        return case

    def extra_search(self, rep: Report, tier: str, rng) -> None:
        """More searching for a failing input when an obligation broke (optional)."""

    def describe(self, case):
        return case

    def setup(self):
        pass

    def teardown(self):
        pass

    def extra_checks(self, rep: Report, tier: str, rng) -> None:
        """Property-specific additional work (e.g. exhaustive sweeps with own bookkeeping)."""


def _gen(chk: PropertyCheck, rep: Report):
    import gen
    try:
        gen.generate(chk.gen_files)
        return True
    except gen.GenError as e:
        witness = getattr(e, "witness", None)
        rep.violation({
            "broken": "translator (fail-closed)", "object": e.obj, "why": e.why,
            "input": witness, "note": "the generated tables the theorems are stated over cannot be produced",
        }, found_input=witness is not None, signature=f"gen:{e.obj}")
        return False
    except Exception as e:  # import failure etc.
        rep.violation({"broken": "translator crashed", "why": repr(e), "trace": traceback.format_exc()[-1500:]},
                      found_input=False)
        return False


def run_check(chk: PropertyCheck, tier: str) -> int:
    seed = common.seed_from_env()
    rng = random.Random(seed)
    rep = Report(chk.pid, tier, seed, chk.level)
    rep.assumptions = list(chk.assumptions)
    rep.cov["rule"] = chk.rule
    if chk.level == "other":
        rep.cov["explanation"] = getattr(chk, "explanation", chk.rule)
    rep.cov["trusted_base"] = list(TRUSTED_BASE_COMMON)
    rep.cov["checker_cmd"] = f"cd /verif/coq && make props/{chk.pid}.vo  (coqc 8.16.1, full .vo)"
    rep.cov["repo_head"] = common.git_head(common.REPO)

    for old in common.REPLAYS.glob(f"{chk.pid}-*.json"):
        old.unlink()

    bad = hygiene_gate()
    if bad:
        rep.violation({"broken": "hygiene gate", "hits": bad}, found_input=False)
        return rep.finish()

    gen_ok = _gen(chk, rep)
    proof_broken = None
    model_ok = gen_ok
    if gen_ok:
        # 1. models must build (needed to run the correspondence)
        try:
            coq_make(["lib/CaseRun.vo"] + [m.replace(".", "/") + ".vo" for m in chk.model_imports])
        except CoqBuildError as e:
            model_ok = False
            proof_broken = ("model", first_error(e.log))
        # 2. the property's theorems
        names = props_theorems(chk.pid)
        rep.cov["obligations"] = len(names)
        rep.cov["theorems"] = names
        if model_ok:
            try:
                coq_make([f"props/{chk.pid}.vo"])
                rep.cov["discharged"] = len(names)
                if tier == "thorough":
                    rep.cov["coqchk"] = common.coqchk(chk.pid)
                pa = print_assumptions(chk.pid)
                rep.cov["print_assumptions"] = pa
                for n, a in pa.items():
                    if "Closed under the global context" not in a:
                        rep.assumptions.append(f"{n} depends on: {a}")
            except CoqBuildError as e:
                err = first_error(e.log)
                m = re.match(r"([^:]+):(\d+):", err)
                where = enclosing_statement(m.group(1), int(m.group(2))) if m else "?"
                proof_broken = (where, err)
                rep.cov["discharged"] = 0
    else:
        rep.cov["obligations"] = len(props_theorems(chk.pid))

    # 3. implementation runs + monitor
    chk.setup()
    try:
        cases = list(chk.corpus_cases()) + list(chk.build_cases(tier, rng))
        results = []
        impl_failures = []
        for c in cases:
            obs = _observe(chk, c)
            results.append((c, obs))
            nt = False if _unobservable(obs) else chk.nontrivial(c, obs)
            rep.count_case(chk.describe(c), nt)
            why = _judge(chk, c, obs)
            if why:
                impl_failures.append((c, obs, why))
        for c, obs in results[:2] + results[len(results) // 2: len(results) // 2 + 1] + results[-1:]:
            rep.sample({"case": chk.describe(c), "observed": obs}, limit=4)

        for c, obs, why in _dedup(chk, impl_failures):
            small = chk.shrink(c, lambda cc: _judge(chk, cc, _observe(chk, cc)) is not None)
            sobs = _observe(chk, small)
            swhy = _judge(chk, small, sobs) or why
            rep.violation({"input": chk.describe(small), "observed": sobs, "required": swhy,
                           "how": "property predicate evaluated on the implementation's own output"},
                          found_input=True, signature=_sig(chk, small, sobs, swhy))

        # 4. correspondence
        mismatches = []
        if model_ok and cases:
            # a check may keep some cases out of the model comparison (model_input -> None):
            # those are judged by the property predicate only
            compared = [(c, o) for c, o in results if chk.model_input(c) is not None]
            rep.cov["cases_compared_with_model"] = len(compared)
            zc = [(chk.model_input(c), _obs_z(chk, c, o)) for c, o in compared]
            try:
                bad_idx, _ = run_cases_in_coq(chk.pid, chk.model_imports, chk.run_expr, zc,
                                              shard=chk.shard, preamble=chk.case_preamble, in_ty=chk.case_type)
            except RuntimeError as e:
                bad_idx = []
                zc = []
                proof_broken = proof_broken or ("cases evaluation", str(e)[-800:])
            rep.cov["traces_validated_against_impl"] = len(zc) - len(bad_idx)
            rep.cov["disagreements"] = len(bad_idx)
            mismatches = [compared[i] for i in bad_idx]
        chk.extra_checks(rep, tier, rng)

        broken = proof_broken is not None or bool(mismatches)
        if broken and not impl_failures and not rep.violations:
            # obligation broke but no failing input yet: search harder
            chk.extra_search(rep, tier, rng)
        if broken and not rep.violations and not rep.known_hits:
            payload = {}
            if proof_broken:
                payload["broken"] = f"proof obligation: {proof_broken[0]}"
                payload["detail"] = proof_broken[1]
            if mismatches:
                c, obs = mismatches[0]
                payload["correspondence"] = f"harness {chk.pid}: model and implementation disagree on {len(mismatches)} case(s)"
                payload["first_disagreeing_case"] = chk.describe(c)
                payload["implementation_observed"] = obs
                try:
                    mo = common.eval_in_coq(chk.model_imports, [f"({chk.run_expr}) ({chk.model_input(c)})"],
                                            preamble=chk.case_preamble)
                    payload["model_output_z"] = mo[0]
                    payload["implementation_output_z"] = _obs_z(chk, c, obs)
                except Exception as e:  # noqa
                    payload["model_output_z"] = f"unavailable: {e}"
            rep.violation(payload, found_input=False)
        elif broken and not rep.violations and rep.known_hits:
            # obligation broken only by known findings is still a broken obligation
            payload = {"broken": str(proof_broken), "mismatches": len(mismatches)}
            if mismatches:
                c, obs = mismatches[0]
                payload["first_disagreeing_case"] = chk.describe(c)
                payload["implementation_output_z"] = _obs_z(chk, c, obs)
                try:
                    payload["model_output_z"] = common.eval_in_coq(
                        chk.model_imports, [f"({chk.run_expr}) ({chk.model_input(c)})"], preamble=chk.case_preamble)[0]
                except Exception as e:  # noqa
                    payload["model_output_z"] = f"unavailable: {e}"
            rep.violation(payload, found_input=False)
    finally:
        chk.teardown()
    return rep.finish()


def _observe(chk, c):
    """run the implementation on a case; a driver that cannot even record what the implementation did (its output has a
    shape the driver's bookkeeping does not expect) yields an 'unobservable' observation, which is itself a failure of the case"""
    try:
        return chk.run_impl(c)
    except Exception as e:  # noqa
        import traceback
        tb = traceback.extract_tb(e.__traceback__)
        return {"crash": f"{type(e).__name__}: {e}", "unobservable": True,
                "where": [f"{f.filename.rsplit('/', 1)[-1]}:{f.lineno} {f.line}" for f in tb[-3:]]}


def _unobservable(obs):
    return isinstance(obs, dict) and obs.get("unobservable") is True


def _judge(chk, c, obs):
    if _unobservable(obs):
        return ("the implementation's output could not be recorded: " + obs["crash"] + " at " + "; ".join(obs["where"][-2:]))[:400]
    return chk.monitor(c, obs)


def _sig(chk, c, obs, why):
    if _unobservable(obs):
        return "unobservable:" + obs["crash"][:60]
    return chk.signature(c, obs, why)


def _obs_z(chk, c, obs):
    if _unobservable(obs):
        return [-98]
    return chk.obs_to_z(c, obs)


def _dedup(chk, failures, limit=3):
    seen = set()
    out = []
    for c, obs, why in failures:
        sig = _sig(chk, c, obs, why) or why
        if sig in seen:
            continue
        seen.add(sig)
        out.append((c, obs, why))
        if len(out) >= limit:
            break
    return out
