"""C13: incoming callbacks -- frames encoded byte-level by an independent encoder (written from the EZSP
reference, not from bellows' tables), pushed through the real EZSP.frame_received into the real
ControllerApplication, vs the Coq decode+translate model."""
import asyncio
import struct

from framework import PropertyCheck

OWN_NWK = 0x1234


def header(v, seq, fid):
    if v == 4:
        return bytes([seq, 0x90, fid])
    if v < 8:
        return bytes([seq, 0x90, 0xFF, 0x00, fid])
    return bytes([seq, 0x90, 0x01, fid & 0xFF, fid >> 8])


def enc_aps(a):
    # EmberApsFrame: profileId, clusterId, sourceEndpoint, destinationEndpoint, options, groupId, sequence
    return struct.pack("<HHBBHHB", a["profile"], a["cluster"], a["src_ep"], a["dst_ep"], a["options"], a["group"], a["seq"])


def enc_incoming(v, m):
    """incomingMessageHandler (0x45), pre-v14 and v14 field orders (UG100 / EZSP reference)"""
    if v >= 14:
        body = (bytes([m["type"]]) + enc_aps(m) + struct.pack("<H", m["sender"]) + bytes(m["eui64"])
                + bytes([m["binding"], m["address"], m["lqi"]]) + struct.pack("<b", m["rssi"])
                + struct.pack("<I", m["timestamp"]) + bytes([len(m["payload"])]) + bytes(m["payload"]))
    else:
        body = (bytes([m["type"]]) + enc_aps(m) + bytes([m["lqi"]]) + struct.pack("<b", m["rssi"])
                + struct.pack("<H", m["sender"]) + bytes([m["binding"], m["address"]])
                + bytes([len(m["payload"])]) + bytes(m["payload"]))
    return header(v, m["hseq"], 0x45) + body


def enc_join(v, j):
    """trustCenterJoinHandler (0x24): newNodeId, newNodeEui64, status, policyDecision, parentOfNewNodeId"""
    body = struct.pack("<H", j["nwk"]) + bytes(j["ieee"]) + bytes([j["status"], j["decision"]]) + struct.pack("<H", j["parent"])
    return header(v, j["hseq"], 0x24) + body


def _n(x):
    """a field of the packet as a number; anything that is not a number is recorded as its repr (and then differs)"""
    try:
        return int(x)
    except Exception:  # noqa
        return "not a number: " + repr(x)


class Check(PropertyCheck):
    pid = "C13"
    gen_files = ["GenCmd", "GenCallbacks", "GenAppFn"]
    model_imports = ["lib.EzspTypes", "gen.GenCmd", "gen.GenCallbacks", "model.EzspCodec", "model.EzspCases", "model.Translate"]
    run_expr = "run_c13_case"
    case_type = "(N * Z * list N)"
    shard = 300
    rule = ("sessions on ONE running application per version (streams of callbacks sharing type, sender and APS counter; joins of devices with manufacturer-specific address prefixes included; rejoins, departures and returns of devices the application already knows); "
            "every protocol version 4..14 x boundary values of every address-like field (reserved short addresses as sender) x incomingMessageHandler with all 7 defined message types and undefined ones, random APS "
            "fields, endpoints, sender, LQI 0..255, RSSI -128..127, payload lengths 0..maximum (and a long one), and trustCenterJoinHandler "
            "with every device-update status x every join decision; frames built by an independent byte-level encoder; non-trivial = a "
            "message type that must yield a packet, or a join/leave; distinct by frame bytes")
    assumptions = ["zigpy's packet_received / handle_join / handle_leave are the observation points (patched to record)"]

    def setup(self):
        import stack
        self.stack = stack
        self.loop = stack.new_loop()
        self.apps = {}

    def teardown(self):
        for app, _ in self.apps.values():
            tsk = getattr(app, "_mfg_id_task", None)
            if tsk is not None and not tsk.done():
                tsk.cancel()
        try:
            self.loop.run_until_complete(asyncio.sleep(0))
        except Exception:
            pass
        self.loop.close()

    def _app(self, v):
        if v in self.apps:
            return self.apps[v]

        async def mk():
            app = self.stack.make_app(v)
            app.state.node_info.nwk = OWN_NWK
            rec = []
            app.packet_received = lambda p: rec.append(("packet", p))

            def handle_join(nwk, ieee, parent):
                rec.append(("join", int(nwk), bytes(ieee.serialize()), int(parent)))
                # what zigpy's handle_join does to the device table: the device is known from now on under this address
                # (a leave does not remove it); later callbacks about it must be translated all the same
                import zigpy.device
                dev = app.devices.get(ieee)
                if dev is None:
                    app.devices[ieee] = zigpy.device.Device(app, ieee, nwk)
                else:
                    dev.nwk = nwk
            app.handle_join = handle_join
            app.handle_leave = lambda nwk, ieee: rec.append(("leave", int(nwk), bytes(ieee.serialize())))

            async def noop(*a, **k):
                return None
            app.cleanup_tc_link_key = noop
            # _reset_mfg_id is left alone: joins of devices with a manufacturer-specific address prefix start a
            # background task on the running application, and later joins must still be reported
            app._ezsp.add_callback(app.ezsp_callback_handler)
            return app, rec
        self.apps[v] = self.loop.run_until_complete(mk())
        return self.apps[v]

    def build_cases(self, tier, rng):
        cases = []
        per = 60 if tier == "quick" else 1500
        for v in range(4, 15):
            types = [0, 1, 2, 3, 4, 5, 6, 7, 0x80, 0xFF]
            for i in range(per):
                ty = types[i % len(types)] if i < 3 * len(types) else rng.choice([0, 2, 4, 0, 2, 4, rng.randrange(256)])
                n = rng.choice([0, 1, 2, 5, 30, 80, 100, 127, 200, 254]) if i % 4 else rng.randrange(0, 255)
                m = {"type": ty, "profile": rng.randrange(65536), "cluster": rng.randrange(65536),
                     "src_ep": rng.randrange(256), "dst_ep": rng.randrange(256), "options": rng.randrange(65536),
                     "group": rng.randrange(65536), "seq": rng.randrange(256), "sender": rng.randrange(65536),
                     "eui64": [rng.randrange(256) for _ in range(8)], "binding": rng.randrange(256),
                     "address": rng.randrange(256), "lqi": rng.choice([0, 255, rng.randrange(256)]),
                     "rssi": rng.choice([-128, 127, 0, -1, rng.randrange(-128, 128)]),
                     "timestamp": rng.randrange(1 << 32), "payload": [rng.randrange(256) for _ in range(n)],
                     "hseq": rng.randrange(256)}
                cases.append({"v": v, "kind": "incoming", "m": m})
            # boundary values of every address-like field (reserved short addresses included): a deliverable message is
            # delivered whatever its sender, group, endpoints, profile or cluster
            for ty in (0, 2, 4):
                for sender in (0x0000, 0x0001, OWN_NWK, 0x7FFF, 0x8000, 0xFFF7, 0xFFF8, 0xFFFB, 0xFFFC, 0xFFFD, 0xFFFE, 0xFFFF):
                    b = rng.choice([0x0000, 0xFFFF, 0xFFFC, 0x0001])
                    m = {"type": ty, "profile": rng.choice([0, 0xFFFF, 0x0104, 0xC05E]), "cluster": rng.choice([0, 0xFFFF, 0x0019]),
                         "src_ep": rng.choice([0, 1, 0xF2, 0xFF]), "dst_ep": rng.choice([0, 1, 0xF2, 0xFF]), "options": rng.choice([0, 0xFFFF]),
                         "group": b, "seq": rng.choice([0, 0xFF]), "sender": sender,
                         "eui64": [rng.choice([0, 0xFF])] * 8, "binding": rng.choice([0, 0xFF]),
                         "address": rng.choice([0, 0xFF]), "lqi": rng.choice([0, 255]), "rssi": rng.choice([-128, 127]),
                         "timestamp": rng.choice([0, 0xFFFFFFFF]), "payload": [rng.randrange(256) for _ in range(rng.choice([0, 1, 5]))],
                         "hseq": rng.randrange(256)}
                    cases.append({"v": v, "kind": "incoming", "m": m})
            # ZDO traffic (profile 0, endpoint 0) is delivered like anything else, whatever its cluster and however short its
            # payload: device announcements, address requests / responses, management requests, with payloads of 0..12 bytes
            zclusters = (0x0013, 0x0000, 0x0001, 0x0006, 0x8001, 0x0036) if tier == "quick" else \
                (0x0013, 0x0000, 0x0001, 0x0002, 0x0005, 0x0006, 0x0031, 0x0036, 0x0038, 0x8000, 0x8001, 0x8013, 0x8038)
            zlens = (0, 1, 3, 10, 11, 12) if tier == "quick" else range(0, 14)
            for cl in zclusters:
                for n in zlens:
                    for ty in (0, 4) if tier == "quick" else (0, 2, 4):
                        m = {"type": ty, "profile": rng.choice([0, 0, 0x0104]), "cluster": cl, "src_ep": 0, "dst_ep": 0,
                             "options": rng.randrange(65536), "group": rng.randrange(65536), "seq": rng.randrange(256),
                             "sender": rng.randrange(65536), "eui64": [rng.randrange(256) for _ in range(8)],
                             "binding": rng.randrange(256), "address": rng.randrange(256), "lqi": rng.randrange(256),
                             "rssi": rng.randrange(-128, 128), "timestamp": rng.randrange(1 << 32),
                             "payload": [rng.randrange(256) for _ in range(n)], "hseq": rng.randrange(256)}
                        cases.append({"v": v, "kind": "incoming", "m": m})
            # streams on the one running application: consecutive deliverable callbacks that share message type, sender
            # and APS counter (a device with a constant or restarted counter) but differ elsewhere, with ignored types
            # and other senders in between; every one of them must still yield its own packet
            for _ in range(3 if tier == "quick" else 40):
                base = dict(cases[-1]["m"]) if cases else None
                ty = rng.choice([0, 2, 4])
                sender, aseq = rng.randrange(65536), rng.randrange(256)
                for j in range(rng.randrange(2, 6)):
                    m = {"type": ty, "profile": rng.randrange(65536), "cluster": rng.randrange(65536),
                         "src_ep": rng.randrange(256), "dst_ep": rng.randrange(256), "options": rng.randrange(65536),
                         "group": rng.randrange(65536), "seq": aseq, "sender": sender,
                         "eui64": [rng.randrange(256) for _ in range(8)], "binding": rng.randrange(256),
                         "address": rng.randrange(256), "lqi": rng.randrange(256), "rssi": rng.randrange(-128, 128),
                         "timestamp": rng.randrange(1 << 32), "payload": [rng.randrange(256) for _ in range(rng.randrange(0, 20))],
                         "hseq": rng.randrange(256)}
                    cases.append({"v": v, "kind": "incoming", "m": m})
                    if rng.random() < 0.4:
                        m2 = dict(m, type=rng.choice([1, 3, 5, 6]), hseq=rng.randrange(256))
                        cases.append({"v": v, "kind": "incoming", "m": m2})
                    if rng.random() < 0.3:
                        cases.append({"v": v, "kind": "incoming", "m": dict(m, hseq=rng.randrange(256))})   # exact repeat
            for status in (0, 1, 2, 3, 4, 5, 6, 7, 0xFF):
                for decision in (0, 1, 2, 3, 0x7F):
                    ieee = [rng.randrange(256) for _ in range(8)]
                    if rng.random() < 0.35:
                        # Xiaomi / Lumi address prefixes (04:CF:8C, 54:EF:44): the application overrides its
                        # manufacturer id for a while; several such joins hit one running application
                        ieee[5:8] = rng.choice([[0x8C, 0xCF, 0x04], [0x44, 0xEF, 0x54]])
                    j = {"nwk": rng.randrange(65536), "ieee": ieee, "status": status, "decision": decision,
                         "parent": rng.randrange(65536), "hseq": rng.randrange(256)}
                    cases.append({"v": v, "kind": "join", "m": j})
        # devices the application already knows: a device joins, then rejoins (secured / unsecured) under the same short
        # address with another parent, twice, leaves, comes back, and finally rejoins under a new short address
        for v in range(4, 15):
            for _ in range(1 if tier == "quick" else 6):
                ieee = [rng.randrange(256) for _ in range(8)]
                nwk = rng.randrange(1, 0xFFF7)
                seqs = [(1, nwk), (0, nwk), (0, nwk), (3, nwk), (2, nwk), (0, nwk), (0, (nwk + 1) % 0xFFF7), (0, (nwk + 1) % 0xFFF7)]
                for status, n in seqs:
                    j = {"nwk": n, "ieee": list(ieee), "status": status, "decision": rng.choice([0, 1, 3]),
                         "parent": rng.randrange(65536), "hseq": rng.randrange(256)}
                    cases.append({"v": v, "kind": "join", "m": j})
        # the coordinator's own short address changes along the life of one application object (a network re-formed or
        # restored: load_network_info() installs a new node_info): every case names the own address in force
        own = OWN_NWK
        for i, c in enumerate(cases):
            if i % 37 == 36:
                own = rng.choice([0x0000, OWN_NWK, 0xA5E8, 0x0001, 0x7FFE])
            c["own"] = own
        return cases

    def frame(self, case):
        return enc_incoming(case["v"], case["m"]) if case["kind"] == "incoming" else enc_join(case["v"], case["m"])

    def run_impl(self, case):
        app, rec = self._app(case["v"])
        del rec[:]
        asyncio.set_event_loop(self.loop)
        own = case.get("own", OWN_NWK)
        if int(app.state.node_info.nwk) != own:
            import dataclasses
            import zigpy.types as zt_
            app.state.node_info = dataclasses.replace(app.state.node_info, nwk=zt_.NWK(own))    # as load_network_info() does
        # firmware convention: a callback frame never carries the sequence number of a pending command
        # (the manufacturer-id task may have one outstanding on this application)
        while case["m"]["hseq"] in app._ezsp._protocol._awaiting:
            case["m"]["hseq"] = (case["m"]["hseq"] + 1) % 256
        data = self.frame(case)
        hist = self.__dict__.setdefault("_hist", {}).setdefault(case["v"], [])
        case["_preceding"] = list(hist[-6:])       # the application is stateful: the replay names what it saw just before
        hist.append(data.hex())
        out = []

        async def go():
            app._ezsp.frame_received(data)
            await asyncio.sleep(0)
        try:
            self.loop.run_until_complete(go())
        except BaseException as e:  # noqa
            return {"crash": repr(e)}
        for r in rec:
            if r[0] == "packet":
                p = r[1]
                import zigpy.types as zt
                mode = {zt.AddrMode.NWK: 0, zt.AddrMode.Group: 1, zt.AddrMode.Broadcast: 2}[p.dst.addr_mode]
                out.append({"k": "packet", "src": _n(p.src.address), "src_mode_nwk": p.src.addr_mode == zt.AddrMode.NWK,
                            "src_ep": _n(p.src_ep), "dst": [mode, _n(p.dst.address)], "dst_ep": _n(p.dst_ep),
                            "tsn": _n(p.tsn), "profile": _n(p.profile_id), "cluster": _n(p.cluster_id),
                            "data": list(p.data.serialize()), "lqi": _n(p.lqi), "rssi": _n(p.rssi)})
            elif r[0] == "join":
                out.append({"k": "join", "nwk": r[1], "ieee": list(r[2]), "parent": r[3]})
            else:
                out.append({"k": "leave", "nwk": r[1], "ieee": list(r[2])})
        return {"events": out}

    def describe(self, case):
        d = {k: v for k, v in case.items() if not k.startswith("_")}
        d["frame"] = self.frame(case).hex()
        d["preceding_frames_on_this_application"] = case.get("_preceding", [])
        return d

    def model_input(self, case):
        return f"({case['v']}, {case.get('own', OWN_NWK)}%Z, [{';'.join(str(b) for b in self.frame(case))}])"

    def obs_to_z(self, case, obs):
        if "crash" in obs:
            return [-99]
        z = []
        for e in obs["events"]:
            if e["k"] == "packet":
                z += [1, e["src"], e["src_ep"]] + e["dst"] + [e["dst_ep"], e["tsn"], e["profile"], e["cluster"], len(e["data"])] \
                    + e["data"] + [e["lqi"], e["rssi"]]
            elif e["k"] == "join":
                z += [2, e["nwk"]] + e["ieee"] + [e["parent"]]
            else:
                z += [3, e["nwk"]] + e["ieee"]
        return [v if isinstance(v, int) else -9999 for v in z] + [-1]

    def monitor(self, case, obs):
        if "crash" in obs:
            return f"callback handling raised {obs['crash']}"
        m = case["m"]
        evs = obs["events"]
        if case["kind"] == "incoming":
            want_dst = {0: [0, case.get("own", OWN_NWK)], 2: [1, m["group"]], 4: [2, 0xFFFC]}.get(m["type"])
            if want_dst is None:
                return None if not evs else f"message type {m['type']} must yield no packet, got {len(evs)}"
            if len(evs) != 1 or evs[0]["k"] != "packet":
                return f"message type {m['type']} must yield exactly one packet, got {len(evs)} events"
            p = evs[0]
            want = {"src": m["sender"], "src_ep": m["src_ep"], "dst": want_dst, "dst_ep": m["dst_ep"], "tsn": m["seq"],
                    "profile": m["profile"], "cluster": m["cluster"], "data": m["payload"], "lqi": m["lqi"], "rssi": m["rssi"]}
            for k, w in want.items():
                if p[k] != w:
                    return f"v{case['v']}: packet field {k} is {p[k]!r}, the callback carried {w!r}"
            if not p["src_mode_nwk"]:
                return "packet source is not a network address"
        else:
            if m["status"] == 2:
                ok = len(evs) == 1 and evs[0]["k"] == "leave" and evs[0]["nwk"] == m["nwk"] and evs[0]["ieee"] == m["ieee"]
                return None if ok else f"departure must yield one leave with the reported addresses, got {evs}"
            if m["decision"] == 2:
                return None if not evs else f"a denied join must yield nothing, got {evs}"
            ok = (len(evs) == 1 and evs[0]["k"] == "join" and evs[0]["nwk"] == m["nwk"] and evs[0]["ieee"] == m["ieee"]
                  and evs[0]["parent"] == m["parent"])
            return None if ok else f"an allowed join must yield one join with nwk, ieee and parent, got {evs}"
        return None

    def nontrivial(self, case, obs):
        return case["kind"] == "join" or case["m"]["type"] in (0, 2, 4)

    def signature(self, case, obs, why):
        import re
        return "translate:" + re.sub(r"\d+", "N", why)[:60]
